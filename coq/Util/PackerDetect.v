(** * The packer's change detection: [DirDiff.compare(old_hashsums, dir_hashsums(dir))]
      (cross-property statement C18 + C19).

    [PGPacker._prepare] / [check_dir_diff] compute [dir_hashsums(srcdir)], compare them with
    the stored hashsums by [DirDiff.compare(old, new)] and update iff the diff is non-empty.
    The table [dir_hashsums] returns is the very object [DirDiff.compare] consumes: nested
    [dict]s whose leaves are [str]s -- a qualified digest for a file, ["symlink:..."] for a
    link; [compare] tests [isinstance(_, dict)] and [==] only, so both kinds of leaf are the
    single leaf constructor [Lf] of [Diff.dtree].  [hs_to_dtree] is that identity of
    representations.  This file is not used by the runner. *)
From Coq Require Import List String Ascii Bool Lia.
From MV Require Import Base.Sx Base.Cmp Util.DirHash Util.DirHashProofs
                       Util.Diff Util.DiffProofs Util.DiffProofs2.
Import ListNotations.
Local Open Scope list_scope.

Fixpoint hs_to_dtree (h : hs_tree) : dtree :=
  match h with
  | HStr s => Lf s
  | HDir es => D (map (fun kc => (fst kc, hs_to_dtree (snd kc))) es)
  end.

Lemma hs_to_dtree_inj : forall h1 h2, hs_to_dtree h1 = hs_to_dtree h2 -> h1 = h2.
Proof.
  induction h1 as [s|es IH] using hs_tree_ind2; intros [s2|es2] E; simpl in E; try discriminate.
  - inversion E; reflexivity.
  - inversion E as [E']. clear E. f_equal. revert es2 E'.
    induction IH as [|[k c] r Hc _ IHr]; intros [|[k2 c2] r2] E; simpl in E; try discriminate.
    + reflexivity.
    + inversion E as [[Ek Ec Er]]. simpl in Hc. apply Hc in Ec. subst. f_equal. apply IHr; exact Er.
Qed.

Lemma sorted_names_asc l : sorted_names l = ascb l.
Proof.
  induction l as [|x r IH]; [reflexivity|]. destruct r as [|y r']; [reflexivity|].
  change (sorted_names (x :: y :: r')) with (ltb scmp x y && sorted_names (y :: r')).
  change (ascb (x :: y :: r')) with (slt x y && ascb (y :: r')). rewrite IH. reflexivity.
Qed.

Lemma omap_snd_keys {X Y} (f : X -> option Y) : forall es r,
  omap_snd f es = Some r -> map fst r = map fst es.
Proof.
  induction es as [|[k c] es IH]; intros r E.
  - simpl in E. inversion E; reflexivity.
  - rewrite omap_snd_cons in E. destruct (f c); [|discriminate].
    destruct (omap_snd f es) as [r'|]; [|discriminate]. inversion E; subst. simpl.
    rewrite (IH r' eq_refl). reflexivity.
Qed.

(** entry [k] of a hashed table is the hash of entry [k] of the directory *)
Lemma omap_snd_assoc {X} (f : X -> option hs_tree) k : forall es r,
  omap_snd f es = Some r ->
  lookup k (map (fun kc => (fst kc, hs_to_dtree (snd kc))) r) =
  match assoc k es with
  | Some c => option_map hs_to_dtree (f c)
  | None => None
  end.
Proof.
  induction es as [|[k0 c] es IH]; intros r E.
  - simpl in E. inversion E; reflexivity.
  - rewrite omap_snd_cons in E. destruct (f c) as [h|] eqn:Fc; [|discriminate].
    destruct (omap_snd f es) as [r'|]; [|discriminate]. inversion E; subst. simpl.
    destruct (String.eqb k k0); [rewrite Fc; reflexivity | apply IH; reflexivity].
Qed.

Lemma omap_snd_assoc_some {X Y} (f : X -> option Y) k : forall es r c,
  omap_snd f es = Some r -> assoc k es = Some c -> exists h, f c = Some h.
Proof.
  induction es as [|[k0 c0] es IH]; intros r c E A; [discriminate|].
  rewrite omap_snd_cons in E. destruct (f c0) as [h|] eqn:Fc; [|discriminate].
  destruct (omap_snd f es) as [r'|]; [|discriminate]. simpl in A.
  destruct (String.eqb k k0); [inversion A; subst; eauto | eapply IH; [reflexivity | exact A]].
Qed.

Lemma links_ok_tlookup : forall q t c,
  links_okb t = true -> tlookup t q = Some c -> links_okb c = true.
Proof.
  induction q as [|k q IH]; intros t c L E.
  - simpl in E. inversion E; subst; exact L.
  - destruct t as [bs|tg|es]; simpl in E; try discriminate.
    destruct (assoc k es) as [c0|] eqn:A; [|discriminate].
    apply (IH c0 c); [|exact E]. simpl in L. clear E.
    induction es as [|[k0 c1] es IHes]; simpl in A; [discriminate|].
    simpl in L. apply andb_prop in L as [L1 L2].
    destruct (String.eqb k k0); [inversion A; subst; exact L1 | apply IHes; assumption].
Qed.

Lemma no_outside_tlookup : forall q t c,
  no_outsideb t = true -> tlookup t q = Some c -> no_outsideb c = true.
Proof.
  induction q as [|k q IH]; intros t c L E.
  - simpl in E. inversion E; subst; exact L.
  - destruct t as [bs|tg|es]; simpl in E; try discriminate.
    destruct (assoc k es) as [c0|] eqn:A; [|discriminate].
    apply (IH c0 c); [|exact E]. simpl in L. clear E.
    induction es as [|[k0 c1] es IHes]; simpl in A; [discriminate|].
    simpl in L. apply andb_prop in L as [L1 L2].
    destruct (String.eqb k k0); [inversion A; subst; exact L1 | apply IHes; assumption].
Qed.

Section Detect.
  Variable state : Type.
  Variable init : state.
  Variable upd : state -> bytes -> state.
  Variable fin : state -> digest.
  Hypothesis upd_app : forall s x y, upd (upd s x) y = upd s (x ++ y)%list.
  Hypothesis upd_nil : forall s, upd s [] = s.
  Hypothesis H_inj : forall x y,
    oneshot state init upd fin x = oneshot state init upd fin y -> x = y.

  Local Notation hs' := (hs state init upd fin).
  Local Notation dir_hashsums' := (dir_hashsums state init upd fin).

  (** the table of a canonical directory is a canonical [dtree] *)
  Lemma hs_canon n a : forall t h,
    DirHash.canonb t = true -> hs' n a t = Some h -> Diff.canonb (hs_to_dtree h) = true.
  Proof.
    induction t as [bs|tg|es IH] using fstree_ind2; intros h C E.
    - simpl in E. inversion E; reflexivity.
    - destruct tg; simpl in E; [inversion E; reflexivity | discriminate].
    - simpl in E. destruct (omap_snd (hs' n a) es) as [r|] eqn:Er; [|discriminate].
      inversion E; subst h. simpl hs_to_dtree. apply canon_D. split.
      + assert (K : map fst (map (fun kc => (fst kc, hs_to_dtree (snd kc))) r) = map fst es).
        { rewrite map_map. simpl. rewrite <- (omap_snd_keys _ _ _ Er). apply map_ext. reflexivity. }
        rewrite K, <- sorted_names_asc.
        simpl in C. apply andb_prop in C as [C _]. apply andb_prop in C as [C _]. exact C.
      + simpl in C. apply andb_prop in C as [_ C]. clear E. revert r Er.
        induction IH as [|[k c] es' Hc _ IHes]; intros r Er kv Hin.
        * simpl in Er. inversion Er; subst. destruct Hin.
        * rewrite omap_snd_cons in Er. destruct (hs' n a c) as [h|] eqn:Hh; [|discriminate].
          destruct (omap_snd (hs' n a) es') as [r'|] eqn:Er'; [|discriminate]. inversion Er; subst r.
          simpl in C. apply andb_prop in C as [C1 C2]. destruct Hin as [<-|Hin].
          -- simpl. apply Hc; assumption.
          -- apply (IHes C2 r' eq_refl); exact Hin.
  Qed.

  (** the entry of the table at a path is the table of the entry of the directory *)
  Lemma hs_sub n a : forall q t h, hs' n a t = Some h ->
    osub (Some (hs_to_dtree h)) q =
    match tlookup t q with
    | Some c => option_map hs_to_dtree (hs' n a c)
    | None => None
    end.
  Proof.
    induction q as [|k q IH]; intros t h E.
    - simpl. rewrite E. reflexivity.
    - destruct t as [bs|tg|es].
      + simpl in E. inversion E; reflexivity.
      + destruct tg; simpl in E; [inversion E; reflexivity | discriminate].
      + simpl in E. destruct (omap_snd (hs' n a) es) as [r|] eqn:Er; [|discriminate].
        inversion E; subst h. simpl hs_to_dtree. rewrite osub_cons_D.
        rewrite (omap_snd_assoc (hs' n a) k es r Er). simpl tlookup.
        destruct (assoc k es) as [c|] eqn:A; [|reflexivity].
        destruct (hs' n a c) as [hc|] eqn:Hc; simpl.
        * apply IH; exact Hc.
        * exfalso. destruct (omap_snd_assoc_some (hs' n a) k es r c Er A) as [h Hh]. congruence.
  Qed.

  (** The packer sees "no change" exactly when the two directories have equal content. *)
  Lemma change_detected n al a b ha hb :
    n > 0 -> DirHash.canonb a = true -> DirHash.canonb b = true ->
    no_outsideb a = true -> no_outsideb b = true ->
    dir_hashsums' n al a = Some ha -> dir_hashsums' n al b = Some hb ->
    (is_empty (dirdiff (Some (hs_to_dtree ha)) (Some (hs_to_dtree hb))) = true <-> a = b).
  Proof.
    intros Hn Ca Cb Oa Ob Ea Eb.
    rewrite (is_empty_iff _ _ (hs_canon n al a ha Ca Ea : canone (Some _) = true)
                          (hs_canon n al b hb Cb Eb : canone (Some _) = true)).
    rewrite <- (hashsums_inj state init upd fin upd_app upd_nil H_inj n al a b Hn Ca Cb Oa Ob).
    rewrite Ea, Eb. split.
    - intros E. inversion E as [E']. apply hs_to_dtree_inj in E'. congruence.
    - intros E. inversion E; reflexivity.
  Qed.

  (** A path is reported by the diff of the two tables iff the entries of the two
      directories at that path differ (one missing, different kinds, different bytes,
      different link target, or directories with different content). *)
  Lemma changed_paths n al a b ha hb :
    n > 0 -> DirHash.canonb a = true -> DirHash.canonb b = true ->
    no_outsideb a = true -> no_outsideb b = true ->
    dir_hashsums' n al a = Some ha -> dir_hashsums' n al b = Some hb ->
    forall q,
      (exists nd, In nd (listing (dirdiff (Some (hs_to_dtree ha)) (Some (hs_to_dtree hb)))) /\
                  npath nd = q)
      <-> tlookup a q <> tlookup b q.
  Proof.
    intros Hn Ca Cb Oa Ob Ea Eb q.
    assert (CA : canone (Some (hs_to_dtree ha)) = true) by exact (hs_canon n al a ha Ca Ea).
    assert (CB : canone (Some (hs_to_dtree hb)) = true) by exact (hs_canon n al b hb Cb Eb).
    destruct (reported_iff _ _ CA CB) as (R1 & _). rewrite R1.
    unfold dir_hashsums in Ea, Eb. rewrite (hs_sub n al q a ha Ea), (hs_sub n al q b hb Eb).
    pose proof (canon_links_ok _ Ca) as La. pose proof (canon_links_ok _ Cb) as Lb.
    destruct (tlookup a q) as [ca|] eqn:Ta, (tlookup b q) as [cb|] eqn:Tb.
    - destruct (hs_some state init upd fin n al ca (no_outside_tlookup _ _ _ Oa Ta)) as [h1 H1].
      destruct (hs_some state init upd fin n al cb (no_outside_tlookup _ _ _ Ob Tb)) as [h2 H2].
      rewrite H1, H2. simpl. split.
      + intros Hd E. apply Hd. inversion E; subst cb. congruence.
      + intros Hd E. apply Hd. f_equal. inversion E as [E']. apply hs_to_dtree_inj in E'. subst h2.
        exact (hs_inj_some state init upd fin upd_app upd_nil H_inj n al Hn ca
                 (links_ok_tlookup _ _ _ La Ta) cb (links_ok_tlookup _ _ _ Lb Tb) h1 H1 H2).
    - destruct (hs_some state init upd fin n al ca (no_outside_tlookup _ _ _ Oa Ta)) as [h1 H1].
      rewrite H1. simpl. split; intros _; discriminate.
    - destruct (hs_some state init upd fin n al cb (no_outside_tlookup _ _ _ Ob Tb)) as [h2 H2].
      rewrite H2. simpl. split; intros _; discriminate.
    - split; intros H; exfalso; apply H; reflexivity.
  Qed.
End Detect.
