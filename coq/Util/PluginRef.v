(** * Model of plugin references, version tables and resolution (property C16).

    Transcribes, as total Gallina functions:
    - [schema/plugins.py] [PluginRef.__eq__], [__ge__], [__hash__], [supports]
      and the three operators [functools.total_ordering] derives from [__ge__];
    - [plugin/interface.py] [PluginGroup._add_ep] (version table update),
      [versions], [resolve], [__contains__], [keys];
    - [plugin/util.py] [register_in_group] (same table update);
    - [plugin/metaclass.py] marking of version-less handles.

    Strings are ASCII; Python's [str]/[tuple] comparison is [scmp]/lexicographic. *)
From Coq Require Import List String Ascii NArith Bool.
From MV Require Import Base.Sx Base.Cmp.
Import ListNotations.
Local Open Scope string_scope.

Definition ver : Type := (N * (N * N))%type.
Record ref : Type := mkref { rgroup : string; rname : string; rver : ver }.

Definition vcmp : ver -> ver -> comparison := pcmp N.compare (pcmp N.compare N.compare).
Definition rkey (r : ref) : string * (string * ver) := (rgroup r, (rname r, rver r)).
Definition rcmp (a b : ref) : comparison := pcmp scmp (pcmp scmp vcmp) (rkey a) (rkey b).

(** [__eq__] and the fixed [__ge__] ([True] when nothing differs). *)
Definition r_eq (a b : ref) : bool := eqb rcmp a b.
Definition r_ge (a b : ref) : bool := geb rcmp a b.
(** What [functools.total_ordering] builds from [__ge__] and [__eq__]
    (CPython [functools._lt_from_ge], [_le_from_ge], [_gt_from_ge]). *)
Definition r_lt (a b : ref) : bool := negb (r_ge a b).
Definition r_le (a b : ref) : bool := negb (r_ge a b) || r_eq a b.
Definition r_gt (a b : ref) : bool := r_ge a b && negb (r_eq a b).
Definition r_ne (a b : ref) : bool := negb (r_eq a b).

(** The pinned tree's [__ge__]: falls off the end ([None], falsy) on equal refs. *)
Definition r_ge_pinned (a b : ref) : bool := r_ge a b && negb (r_eq a b).

(** [__hash__] = [hash((group, name, version))]: a function of the key only. *)
Definition r_hash {H : Type} (h : string * (string * ver) -> H) (r : ref) : H := h (rkey r).

Definition vmajor (v : ver) : N := fst v.
Definition vminor (v : ver) : N := fst (snd v).

Definition supports (self other : ref) : bool :=
  String.eqb (rgroup self) (rgroup other)
  && String.eqb (rname self) (rname other)
  && N.eqb (vmajor (rver self)) (vmajor (rver other))
  && negb (N.ltb (vminor (rver self)) (vminor (rver other))).

(** ** Version table.  One group; table maps plugin name to its list of refs.
    Python's [list.append] + stable [list.sort()] on a sorted list is sorted insertion
    after all elements that are not greater. *)
Fixpoint insert (r : ref) (l : list ref) : list ref :=
  match l with
  | [] => [r]
  | x :: rest => if r_lt r x then r :: l else x :: insert r rest
  end.

Definition table : Type := list (string * list ref).

Fixpoint tget (t : table) (n : string) : list ref :=
  match t with
  | [] => []
  | (k, l) :: rest => if String.eqb k n then l else tget rest n
  end.

Fixpoint tupd (t : table) (n : string) (f : list ref -> list ref) : table :=
  match t with
  | [] => [(n, f [])]
  | (k, l) :: rest => if String.eqb k n then (k, f l) :: rest else (k, l) :: tupd rest n f
  end.

(** [_add_ep] / [register_in_group] for reference [r]. *)
Definition register (t : table) (r : ref) : table := tupd t (rname r) (insert r).
Definition register_all (rs : list ref) : table := fold_left register rs [].

Definition versions (t : table) (g n : string) (v : option ver) : list ref :=
  match v with
  | None => tget t n
  | Some v => filter (fun r => supports r (mkref g n v)) (tget t n)
  end.

Definition resolve (t : table) (g n : string) (v : option ver) : option ref :=
  last (map Some (versions t g n v)) None.

Definition contains (t : table) (g n : string) (v : option ver) : bool :=
  match tget t n with
  | [] => false
  | l => match v with None => true | Some v => existsb (r_eq (mkref g n v)) l end
  end.

Definition keys (t : table) : list ref := flat_map snd t.

(** ** Version-less handles ([UndefVersion]). *)
Record cls : Type := mkcls { marked : bool }.
Definition get_handle (versioned : bool) : cls := mkcls (negb versioned).
Definition subclass (bases : list cls) : option cls :=
  if existsb marked bases then None else Some (mkcls false).

(** ** Entry-point name codec ([plugin/types.py]). *)
Definition semver_str (v : ver) : string :=
  string_of_N (fst v) ++ "." ++ string_of_N (fst (snd v)) ++ "." ++ string_of_N (snd (snd v)).

Definition to_ep_name (n : string) (v : ver) : string := n ++ "__" ++ semver_str v.

(** [str.split(sep)] for a two-character separator "__", leftmost-first, non-overlapping. *)
Fixpoint split_uu (s : string) (cur : string) : list string :=
  match s with
  | EmptyString => [cur]
  | String "_" (String "_" rest) => cur :: split_uu rest ""
  | String c rest => split_uu rest (cur ++ String c "")
  end.

Fixpoint split_dot (s : string) (cur : string) : list string :=
  match s with
  | EmptyString => [cur]
  | String "." rest => cur :: split_dot rest ""
  | String c rest => split_dot rest (cur ++ String c "")
  end.

Definition is_digit (c : ascii) : bool :=
  let n := N_of_ascii c in (N.leb 48 n && N.leb n 57)%N.

Fixpoint all_digits (s : string) : bool :=
  match s with EmptyString => true | String c r => is_digit c && all_digits r end.

(** [int(s)] restricted to what [SEMVER_STR_REGEX] admits: one or more ASCII digits. *)
Definition parse_num (s : string) : option N :=
  match s with
  | EmptyString => None
  | _ => if all_digits s then N_of_string s else None
  end.

Definition parse_semver (s : string) : option ver :=
  match split_dot s "" with
  | [a; b; c] =>
      match parse_num a, parse_num b, parse_num c with
      | Some a, Some b, Some c => Some (a, (b, c))
      | _, _, _ => None
      end
  | _ => None
  end.

Definition from_ep_name (s : string) : option (string * ver) :=
  match split_uu s "" with
  | [n; v] => match parse_semver v with Some v => Some (n, v) | None => None end
  | _ => None
  end.

(** ** Runner entry point.
    Case: [(cmp g1 n1 a b c g2 n2 a b c)] -> all operator results;
          [(reg g ((n a b c) ...) (queries...))] -> table observations. *)

Definition sx_ver3 (a b c : sx) : option ver :=
  match sx_N a, sx_N b, sx_N c with
  | Some a, Some b, Some c => Some (a, (b, c))
  | _, _, _ => None
  end.

Definition of_ver (v : ver) : sx := L [of_N (fst v); of_N (fst (snd v)); of_N (snd (snd v))].
Definition of_ref (r : ref) : sx := L [A (rgroup r); A (rname r); of_ver (rver r)].

Definition sx_nv (g : string) (x : sx) : option ref :=
  match x with
  | L [A n; a; b; c] => option_map (mkref g n) (sx_ver3 a b c)
  | _ => None
  end.

Definition sx_query (x : sx) : option (string * option ver) :=
  match x with
  | L [A n] => Some (n, None)
  | L [A n; a; b; c] => option_map (fun v => (n, Some v)) (sx_ver3 a b c)
  | _ => None
  end.

Definition run_c16 (x : sx) : sx :=
  match x with
  | L [A "cmp"; A g1; A n1; a1; b1; c1; A g2; A n2; a2; b2; c2] =>
      match sx_ver3 a1 b1 c1, sx_ver3 a2 b2 c2 with
      | Some v1, Some v2 =>
          let r1 := mkref g1 n1 v1 in let r2 := mkref g2 n2 v2 in
          L [of_bool (r_eq r1 r2); of_bool (r_ne r1 r2); of_bool (r_ge r1 r2);
             of_bool (r_le r1 r2); of_bool (r_gt r1 r2); of_bool (r_lt r1 r2);
             of_bool (supports r1 r2)]
      | _, _ => sx_bad "cmp"
      end
  | L [A "reg"; A g; regs; queries] =>
      match sx_map (sx_nv g) regs, sx_map sx_query queries with
      | Some rs, Some qs =>
          let t := register_all rs in
          L [of_list of_ref (keys t);
             of_list (fun q => L [of_list of_ref (versions t g (fst q) (snd q));
                                  of_opt of_ref (resolve t g (fst q) (snd q));
                                  of_bool (contains t g (fst q) (snd q))]) qs]
      | _, _ => sx_bad "reg"
      end
  | L [A "epname"; A n; a; b; c] =>
      match sx_ver3 a b c with
      | Some v => L [A (to_ep_name n v);
                     of_opt (fun p => L [A (fst p); of_ver (snd p)]) (from_ep_name (to_ep_name n v))]
      | None => sx_bad "epname"
      end
  | L [A "epparse"; A s] =>
      of_opt (fun p => L [A (fst p); of_ver (snd p)]) (from_ep_name s)
  | L [A "subclass"; bases] =>
      match sx_map sx_bool bases with
      | Some bs => of_opt (fun c => of_bool (marked c)) (subclass (map (fun v => get_handle v) bs))
      | None => sx_bad "subclass"
      end
  | _ => sx_bad "c16"
  end.
