(** * Entry-point name codec of [plugin/types.py] with its regular expressions (property C16).

    [Util/PluginRef.v] already holds [to_ep_name], [semver_str] and a [from_ep_name] whose
    validation is folded into the parser.  This file adds what the codec clause of C16
    needs on top of it, transcribing the source literally:

    - the regular expressions [SEMVER_STR_REGEX], [NAME], [QUAL_NAME], [EP_NAME_REGEX]
      as terms of a regular-expression datatype, built by the same concatenations as the
      f-strings of types.py, and a derivative matcher [matchb] for [re.fullmatch]
      (phantom's [FullMatch] types); [qrun]: the name rule once more as an explicit automaton
      (proved equal to the expression, [valid_qualname_automaton]);
    - [from_semver_str] = [tuple(map(int, ver.split(".")))],
    - [from_ep_name_py]: split at ["__"], exactly two pieces, [SemVerStr(...)] validation
      of the second (refusal = [None]), then [from_semver_str]; the name piece is NOT
      validated (the real function accepts ["AA__1.2.3"] and ["__1.2.3"]);
    - [to_ep_name_py]: [EPName(f"{name}__{semver}")], refusing when the result does not
      match [EP_NAME_REGEX].

    Strings are byte strings (UTF-8 of the Python [str]); every class of the expressions
    is a set of ASCII characters, so matching bytes and matching code points agree.
    Python's [int] parses any non-empty ASCII digit string admitted by [DIGIT+] (leading
    zeros allowed); CPython's default 4300-digit limit of int/str conversion is outside
    the model (numerals here are unbounded). *)
From Coq Require Import List String Ascii NArith Bool.
From MV Require Import Base.Sx Util.PluginRef.
Import ListNotations.
Local Open Scope string_scope.

(** ** Regular expressions and [re.fullmatch]. *)
Inductive re : Type :=
| Empty                          (* matches nothing *)
| Eps                            (* matches "" *)
| Chr (p : ascii -> bool)        (* one character of a class *)
| Cat (a b : re)
| Alt (a b : re)
| Star (a : re).

Definition Opt (r : re) : re := Alt Eps r.        (* r? *)
Definition Plus (r : re) : re := Cat r (Star r).  (* r+ *)
Fixpoint Lit (s : string) : re :=                 (* literal text *)
  match s with
  | EmptyString => Eps
  | String c r => Cat (Chr (Ascii.eqb c)) (Lit r)
  end.

Fixpoint nullable (r : re) : bool :=
  match r with
  | Empty => false
  | Eps => true
  | Chr _ => false
  | Cat a b => nullable a && nullable b
  | Alt a b => nullable a || nullable b
  | Star _ => true
  end.

(** Constructors that drop dead branches, so derivatives stay small. *)
Definition mkCat (a b : re) : re :=
  match a with
  | Empty => Empty
  | Eps => b
  | _ => match b with Empty => Empty | _ => Cat a b end
  end.

Definition mkAlt (a b : re) : re :=
  match a with
  | Empty => b
  | _ => match b with Empty => a | _ => Alt a b end
  end.

(** Brzozowski derivative. *)
Fixpoint deriv (c : ascii) (r : re) : re :=
  match r with
  | Empty => Empty
  | Eps => Empty
  | Chr p => if p c then Eps else Empty
  | Cat a b =>
      if nullable a then mkAlt (mkCat (deriv c a) b) (deriv c b) else mkCat (deriv c a) b
  | Alt a b => mkAlt (deriv c a) (deriv c b)
  | Star a => mkCat (deriv c a) (Star a)
  end.

(** [re.fullmatch(r, s) is not None]. *)
Fixpoint matchb (r : re) (s : string) : bool :=
  match s with
  | EmptyString => nullable r
  | String c s' => matchb (deriv c r) s'
  end.

(** ** The expressions of types.py, line by line. *)
Definition in_range (lo hi : ascii) (c : ascii) : bool :=
  (N.leb (N_of_ascii lo) (N_of_ascii c) && N.leb (N_of_ascii c) (N_of_ascii hi))%N.

Definition c_digit : ascii -> bool := in_range "0" "9".
Definition c_letter : ascii -> bool := in_range "a" "z".
Definition c_alnum (c : ascii) : bool := in_range "a" "z" c || in_range "0" "9" c.
Definition c_letsep (c : ascii) : bool := Ascii.eqb c "_" || Ascii.eqb c "-".
Definition c_nssep (c : ascii) : bool := Ascii.eqb c ".".

(* DIGIT = r"[0-9]" *)
Definition DIGIT : re := Chr c_digit.
(* SEMVER_STR_REGEX = rf"{DIGIT}+\.{DIGIT}+\.{DIGIT}+" *)
Definition SEMVER_STR_REGEX : re :=
  Cat (Plus DIGIT) (Cat (Lit ".") (Cat (Plus DIGIT) (Cat (Lit ".") (Plus DIGIT)))).
(* LETTER = r"[a-z]"; ALNUM = r"[a-z0-9]"; LETSEP = r"[_-]"; NSSEP = r"[.]" *)
Definition LETTER : re := Chr c_letter.
Definition ALNUM : re := Chr c_alnum.
Definition LETSEP : re := Chr c_letsep.
Definition NSSEP : re := Chr c_nssep.
(* NAME = rf"{LETTER}{ALNUM}({LETSEP}?{ALNUM})*" *)
Definition NAME_TAIL : re := Star (Cat (Opt LETSEP) ALNUM).
Definition NAME : re := Cat LETTER (Cat ALNUM NAME_TAIL).
(* QUAL_NAME = rf"{NAME}({NSSEP}{NAME})*" *)
Definition QUAL_NAME : re := Cat NAME (Star (Cat NSSEP NAME)).
(* EP_NAME_VER_SEP = "__"; EP_NAME_REGEX = rf"{QUAL_NAME}{EP_NAME_VER_SEP}{SEMVER_STR_REGEX}" *)
Definition EP_NAME_VER_SEP : string := "__".
Definition EP_NAME_REGEX : re := Cat QUAL_NAME (Cat (Lit EP_NAME_VER_SEP) SEMVER_STR_REGEX).

Definition valid_qualname (s : string) : bool := matchb QUAL_NAME s.
Definition valid_semver (s : string) : bool := matchb SEMVER_STR_REGEX s.   (* SemVerStr *)
Definition valid_epname (s : string) : bool := matchb EP_NAME_REGEX s.      (* EPName *)

(** ** [QUAL_NAME] read as an automaton (a second, readable description of the name rule):
    a part starts with a letter, continues with a letter or digit, then letters/digits each
    optionally preceded by one ["_"] or ["-"]; ["."] starts the next part. *)
Inductive qstate : Type :=
| QStart      (* at the start of a part: a letter must follow *)
| QSecond     (* after the first letter: a letter or digit must follow *)
| QBody       (* after a letter or digit, at least two characters into the part: may stop here *)
| QSep.       (* after "_" or "-": a letter or digit must follow *)

Definition qstep (q : qstate) (c : ascii) : option qstate :=
  match q with
  | QStart => if c_letter c then Some QSecond else None
  | QSecond => if c_alnum c then Some QBody else None
  | QBody => if c_alnum c then Some QBody
             else if c_letsep c then Some QSep
             else if c_nssep c then Some QStart else None
  | QSep => if c_alnum c then Some QBody else None
  end.

Fixpoint qrun (q : qstate) (s : string) : bool :=
  match s with
  | EmptyString => match q with QBody => true | _ => false end
  | String c r => match qstep q c with Some q' => qrun q' r | None => false end
  end.

(** ** The codec functions. *)

(* def to_semver_str(ver): return ".".join(map(str, ver))          -- [PluginRef.semver_str] *)

(* def from_semver_str(ver): return tuple(map(int, ver.split("."))) *)
Definition from_semver_str (s : string) : list (option N) :=
  map N_of_string (split_dot s "").

(* def to_ep_name(p_name, p_version):
       return EPName(f"{p_name}{EP_NAME_VER_SEP}{to_semver_str(p_version)}") *)
Definition to_ep_name_py (n : string) (v : ver) : option string :=
  let s := to_ep_name n v in
  if valid_epname s then Some s else None.

(* def from_ep_name(ep_name):
       pname, pverstr = ep_name.split(EP_NAME_VER_SEP)
       return (pname, from_semver_str(SemVerStr(pverstr))) *)
Definition from_ep_name_py (ep_name : string) : option (string * ver) :=
  match split_uu ep_name "" with
  | [pname; pverstr] =>
      if valid_semver pverstr then
        match from_semver_str pverstr with
        | [Some a; Some b; Some c] => Some (pname, (a, (b, c)))
        | _ => None
        end
      else None
  | _ => None
  end.

(** Canonical numerals: ["0"] or no leading zero; an entry-point name is canonical when the
    three numerals of its version part are.  (Exactly the names [to_ep_name] can print.) *)
Definition canon_num (s : string) : bool :=
  match s with
  | EmptyString => false
  | String "0" EmptyString => true
  | String "0" _ => false
  | String _ _ => true
  end.

Definition canon_epname (s : string) : bool :=
  match split_uu s "" with
  | [_; v] => forallb canon_num (split_dot v "")
  | _ => false
  end.

(** ** Runner entry point (cases of the codec part; everything else goes to [run_c16]).
    [(epstr s)]   -> [valid_qualname s; valid_semver s; valid_epname s; canon_epname s;
                      from_ep_name_py s; from_ep_name s]
    [(epmk n a b c)] -> [to_ep_name_py n v; from_ep_name_py of the printed name] *)
Definition of_nv (p : string * ver) : sx := L [A (fst p); of_ver (snd p)].

Definition run_c16e (x : sx) : sx :=
  match x with
  | L [A "epstr"; A s] =>
      L [of_bool (valid_qualname s); of_bool (valid_semver s); of_bool (valid_epname s);
         of_bool (canon_epname s);
         of_opt of_nv (from_ep_name_py s); of_opt of_nv (from_ep_name s)]
  | L [A "epmk"; A n; a; b; c] =>
      match sx_ver3 a b c with
      | Some v => L [of_opt A (to_ep_name_py n v);
                     of_opt of_nv (from_ep_name_py (to_ep_name n v))]
      | None => sx_bad "epmk"
      end
  | _ => run_c16 x
  end.
