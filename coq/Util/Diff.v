(** * Model of directory diffs (property C18).

    Transcribes, as total Gallina functions, [metador_core/util/diff.py]:
    - [DiffNode.compare] (recursive comparison of two nested hashsum dicts),
    - [DiffNode.nodes] (listing: removed children, modified children, the node
      itself, added children; siblings of one bucket sorted by path),
    - [DiffNode.status], [DiffNode._type] ([prev_type]/[curr_type]),
    - [DirDiff.compare], [is_empty], [get], [status];
    and, for the ordering half of the property, a *consumer*: one shallow
    file-system step per listed node ([apply1]) and its iteration ([run_script]).

    A hashsum dict ([hashsums.py] [dir_hashsums]) maps a name to a [str] (file:
    ["sha256:..."], symlink: ["symlink:target"]) or to a nested dict (directory).
    [compare] sees leaves only as strings (it tests [isinstance(_, dict)] and
    [prev == curr]); only [_type] looks at the ["symlink:"] prefix.  Hence a single
    leaf constructor.  A Python dict is an unordered finite map; it is represented
    by its association list with strictly ascending keys ([canonb]), which makes
    equality of dicts Leibniz equality.  The three child dicts of a [DiffNode] are
    kept in that key order; [nodes] still sorts them as the code does.

    Paths are lists of segments, root first; [Path("")] is [[]].
    Strings are ASCII; Python compares [str] by code point = [scmp]. *)
From Coq Require Import List String Ascii Bool.
From MV Require Import Base.Sx Base.Cmp.
Import ListNotations.
Local Open Scope string_scope.
Local Open Scope list_scope.

Definition path : Type := list string.

Inductive dtree : Type :=
| Lf (s : string)
| D (l : list (string * dtree)).

(** An entity at a location: [None] = nothing there (Python [None]). *)
Definition ent : Type := option dtree.

Inductive dnode : Type :=
| Node (p : path) (pv cu : ent) (rem md add : list dnode).

Definition npath (d : dnode) : path := match d with Node p _ _ _ _ _ => p end.
Definition nprev (d : dnode) : ent := match d with Node _ pv _ _ _ _ => pv end.
Definition ncurr (d : dnode) : ent := match d with Node _ _ cu _ _ _ => cu end.
Definition nrem (d : dnode) : list dnode := match d with Node _ _ _ r _ _ => r end.
Definition nmd (d : dnode) : list dnode := match d with Node _ _ _ _ m _ => m end.
Definition nadd (d : dnode) : list dnode := match d with Node _ _ _ _ _ a => a end.

(** [children()]: removed, modified, added chained. *)
Definition children (d : dnode) : list dnode := nrem d ++ nmd d ++ nadd d.

(** ** Dicts as association lists *)

Fixpoint lookup (k : string) (l : list (string * dtree)) : ent :=
  match l with
  | [] => None
  | (k', v) :: r => if String.eqb k k' then Some v else lookup k r
  end.

Definition has (k : string) (l : list (string * dtree)) : bool :=
  match lookup k l with Some _ => true | None => false end.

Definition slt (a b : string) : bool := ltb scmp a b.

(** keys strictly ascending (hence unique) *)
Fixpoint ascb (l : list string) : bool :=
  match l with
  | x :: ((y :: _) as r) => slt x y && ascb r
  | _ => true
  end.

Fixpoint canonb (t : dtree) : bool :=
  match t with
  | Lf _ => true
  | D l => ascb (map fst l) && forallb (fun kv => canonb (snd kv)) l
  end.

Definition canone (e : ent) : bool := match e with Some t => canonb t | None => true end.

(** Subtree at a relative path. *)
Fixpoint sub (t : dtree) (q : path) : ent :=
  match q with
  | [] => Some t
  | k :: r => match t with
              | Lf _ => None
              | D l => match lookup k l with Some c => sub c r | None => None end
              end
  end.

Definition osub (e : ent) (q : path) : ent :=
  match e with Some t => sub t q | None => None end.

(** ** [DiffNode.compare]

    The Python function recurses with [prev] and/or [curr] possibly [None]; the three
    situations are separate structural recursions here:
    [mk_added p t] = [compare(None, t, p)], [mk_removed p t] = [compare(t, None, p)],
    [cmp p a b] = [compare(a, b, p)] for two present entities. *)

Fixpoint mk_added (p : path) (t : dtree) : dnode :=
  match t with
  | Lf _ => Node p None (Some t) [] [] []
  | D l => Node p None (Some t) [] []
             (map (fun kv => mk_added (p ++ [fst kv]) (snd kv)) l)
  end.

Fixpoint mk_removed (p : path) (t : dtree) : dnode :=
  match t with
  | Lf _ => Node p (Some t) None [] [] []
  | D l => Node p (Some t) None
             (map (fun kv => mk_removed (p ++ [fst kv]) (snd kv)) l) [] []
  end.

Definition kids_added (p : path) (l : list (string * dtree)) : list dnode :=
  map (fun kv => mk_added (p ++ [fst kv]) (snd kv)) l.

Definition kids_removed (p : path) (l : list (string * dtree)) : list dnode :=
  map (fun kv => mk_removed (p ++ [fst kv]) (snd kv)) l.

(** children present on both sides: keep the sub-diffs that are not [None] *)
Definition kids_modified (f : string -> dtree -> dtree -> option dnode)
  (l1 l2 : list (string * dtree)) : list dnode :=
  flat_map (fun kv => match lookup (fst kv) l2 with
                      | Some w => match f (fst kv) (snd kv) w with
                                  | Some d => [d]
                                  | None => []
                                  end
                      | None => []
                      end) l1.

Definition only_in (l other : list (string * dtree)) : list (string * dtree) :=
  filter (fun kv => negb (has (fst kv) other)) l.

(** [same_dir = not added and not removed and not modified] -> [None], else the node *)
Definition dir_node (p : path) (a b : dtree) (rem md add : list dnode) : option dnode :=
  match rem, md, add with
  | [], [], [] => None                                  (* all children same *)
  | _, _, _ => Some (Node p (Some a) (Some b) rem md add)
  end.

Fixpoint cmp (p : path) (a b : dtree) {struct a} : option dnode :=
  match a, b with
  | Lf s, Lf t =>
      if String.eqb s t then None                       (* same file -> no diff *)
      else Some (Node p (Some a) (Some b) [] [] [])
  | Lf _, D l2 =>                                       (* file -> dir: all inside added *)
      Some (Node p (Some a) (Some b) [] [] (kids_added p l2))
  | D l1, Lf _ =>                                       (* dir -> file: all inside removed *)
      Some (Node p (Some a) (Some b) (kids_removed p l1) [] [])
  | D l1, D l2 =>
      let add := kids_added p (only_in l2 l1) in
      let rem := kids_removed p (only_in l1 l2) in
      let md := kids_modified (fun k v w => cmp (p ++ [k]) v w) l1 l2 in
      dir_node p a b rem md add
  end.

Definition compare (pv cu : ent) (p : path) : option dnode :=
  match pv, cu with
  | None, None => None
  | None, Some t => Some (mk_added p t)
  | Some t, None => Some (mk_removed p t)
  | Some a, Some b => cmp p a b
  end.

(** [DirDiff.compare(prev, curr)] and [is_empty] *)
Definition dirdiff (pv cu : ent) : option dnode := compare pv cu [].
Definition is_empty (o : option dnode) : bool :=
  match o with None => true | Some _ => false end.

(** ** [DiffNode.nodes]: [sorted(bucket.values(), key=path)], stable *)

Definition pathcmp : path -> path -> comparison := lcmp scmp.

Fixpoint insert_by {X : Type} (kx : path * X) (l : list (path * X)) : list (path * X) :=
  match l with
  | [] => [kx]
  | y :: r => match pathcmp (fst kx) (fst y) with
              | Gt => y :: insert_by kx r
              | _ => kx :: l
              end
  end.

Definition sort_by {X : Type} (l : list (path * X)) : list (path * X) :=
  fold_right insert_by [] l.

Definition block (f : dnode -> list dnode) (l : list dnode) : list dnode :=
  List.concat (map snd (sort_by (map (fun c => (npath c, f c)) l))).

Fixpoint nodes (d : dnode) : list dnode :=
  match d with
  | Node _ _ _ rem md add =>
      block nodes rem ++ block nodes md ++ [d] ++ block nodes add
  end.

Definition listing (o : option dnode) : list dnode :=
  match o with None => [] | Some d => nodes d end.

(** ** [status], [_type] *)

Inductive status : Type := Removed | Modified | Added | Unchanged.

Definition nstatus (d : dnode) : status :=
  match nprev d, ncurr d with
  | None, _ => Added
  | Some _, None => Removed
  | Some _, Some _ => Modified
  end.

(** [DirDiff.status(node)] *)
Definition dstatus (o : option dnode) : status :=
  match o with None => Unchanged | Some d => nstatus d end.

Inductive objtype : Type := TDir | TFile | TSym.

Definition type_of (e : ent) : option objtype :=
  match e with
  | None => None
  | Some (D _) => Some TDir
  | Some (Lf s) =>
      match s with
      | EmptyString => None
      | _ => if prefix "symlink:" s then Some TSym else Some TFile
      end
  end.

(** ** [DirDiff.get]: walk the prefixes of the path, shortest first, looking the
    prefix up among the children of the current node. *)

Definition path_eqb (p q : path) : bool :=
  if list_eq_dec string_dec p q then true else false.

Fixpoint get_from (d : dnode) (pre rest : path) : option dnode :=
  match rest with
  | [] => Some d
  | k :: r =>
      let pre' := pre ++ [k] in
      match find (fun c => path_eqb (npath c) pre') (children d) with
      | Some c => get_from c pre' r
      | None => None
      end
  end.

Definition get (o : option dnode) (q : path) : option dnode :=
  match o with None => None | Some d => get_from d [] q end.

(** ** A consumer of the listing: shallow file-system steps.

    What a packer's [update] does with one listed node, on a file tree:
    - removed: unlink a file / [rmdir] a directory, which must be *empty* by then;
    - added: the location must be free and its parent must be an existing directory;
      a file is created with its content, a directory is created *empty* ([mkdir]);
    - modified, directory on both sides: nothing (the children have their own nodes),
      the directory must exist;
    - modified otherwise (content change, file <-> dir replacement): what is there
      must be a file or an *empty* directory; it is replaced by the new file or by an
      empty directory.
    A step whose precondition fails is refused ([None]). *)

Definition shallow (t : dtree) : dtree := match t with Lf s => Lf s | D _ => D [] end.

Definition is_dir (t : dtree) : bool := match t with D _ => true | Lf _ => false end.

Definition removable (t : dtree) : bool :=
  match t with Lf _ => true | D [] => true | D (_ :: _) => false end.

(** the action at the target location; [c] is what is there now; [Some r]: new content *)
Definition act (pv cu : ent) (c : ent) : option ent :=
  match pv, cu with
  | None, None => None
  | None, Some y => match c with None => Some (Some (shallow y)) | Some _ => None end
  | Some _, None => match c with
                    | Some t => if removable t then Some None else None
                    | None => None
                    end
  | Some x, Some y =>
      match c with
      | None => None
      | Some t =>
          if is_dir x && is_dir y then (if is_dir t then Some c else None)
          else if removable t then Some (Some (shallow y)) else None
      end
  end.

(** dict update keeping the keys ascending: [None] deletes, [Some v] inserts/replaces *)
Fixpoint put (k : string) (v : dtree) (l : list (string * dtree)) : list (string * dtree) :=
  match l with
  | [] => [(k, v)]
  | (k', v') :: r =>
      match scmp k k' with
      | Lt => (k, v) :: l
      | Eq => (k, v) :: r
      | Gt => (k', v') :: put k v r
      end
  end.

Definition del (k : string) (l : list (string * dtree)) : list (string * dtree) :=
  filter (fun kv => negb (String.eqb k (fst kv))) l.

Definition upd (k : string) (c : ent) (l : list (string * dtree)) : list (string * dtree) :=
  match c with Some v => put k v l | None => del k l end.

(** apply [f] at relative path [q] below the entity [e] *)
Fixpoint at_path (q : path) (f : ent -> option ent) (e : ent) : option ent :=
  match q with
  | [] => f e
  | k :: r =>
      match e with
      | Some (D l) =>
          match at_path r f (lookup k l) with
          | Some c' => Some (Some (D (upd k c' l)))
          | None => None
          end
      | _ => None                       (* parent missing or not a directory *)
      end
  end.

Definition apply1 (e : ent) (n : dnode) : option ent :=
  at_path (npath n) (act (nprev n) (ncurr n)) e.

Fixpoint run_script (ns : list dnode) (e : ent) : option ent :=
  match ns with
  | [] => Some e
  | n :: r => match apply1 e n with Some e' => run_script r e' | None => None end
  end.

(** ** [DirDiff.annotate(base_dir)]

    [t] is the directory as it is on disk now ([dir_paths(base_dir)] = every path strictly
    below the root).  The code returns [{}] for an empty diff; otherwise a dict whose items
    are, in insertion order, the listed nodes keyed by their path, followed by the paths of
    the directory that have no node, sorted, with value [None].  The dict is an association
    list here (its keys are proved distinct).  [ann_script]: what a packer's loop sees when
    it skips the [None] entries.  [leafokb]: leaf strings are non-empty (what [_type] needs
    to tell a file from nothing). *)

Fixpoint tpaths (pre : path) (t : dtree) : list path :=
  match t with
  | Lf _ => []
  | D l => flat_map (fun kv => (pre ++ [fst kv]) :: tpaths (pre ++ [fst kv]) (snd kv)) l
  end.

Definition epaths (e : ent) : list path :=
  match e with Some t => tpaths [] t | None => [] end.

Definition listed (ns : list dnode) (p : path) : bool :=
  existsb (fun n => path_eqb (npath n) p) ns.

Definition sort_paths (ps : list path) : list path :=
  map fst (sort_by (map (fun p => (p, tt)) ps)).

Definition ann_missing (ns : list dnode) (t : ent) : list path :=
  sort_paths (filter (fun p => negb (listed ns p)) (epaths t)).

Definition annotate (o : option dnode) (t : ent) : list (path * option dnode) :=
  match o with
  | None => []
  | Some d =>
      map (fun n => (npath n, Some n)) (nodes d) ++
      map (fun p => (p, None)) (ann_missing (nodes d) t)
  end.

Definition ann_script (l : list (path * option dnode)) : list dnode :=
  flat_map (fun kv => match snd kv with Some n => [n] | None => [] end) l.

Fixpoint leafokb (t : dtree) : bool :=
  match t with
  | Lf s => negb (String.eqb s "")
  | D l => forallb (fun kv => leafokb (snd kv)) l
  end.
Definition leafoke (e : ent) : bool := match e with Some t => leafokb t | None => true end.

(** ** Runner entry point.

    Tree: [(f s)] | [(d ((k tree) ...))];  entity: [()] | [(tree)].
    Case: [(prev curr (path ...))] with path = [(seg ...)].
    Result: [(is_empty (node ...) (got ...) script ann_curr ann_prev)] where
    node = [(path status prev curr prev_type curr_type (rem paths) (md paths) (add paths))],
    got = [()] | [(node)] for every query path, and
    script = result of running the listing as a script on [prev]: [()] if refused,
    else [(entity)]; ann_x = the items [(path status)] of [annotate] on the directory x. *)

Fixpoint sx_tree (x : sx) : option dtree :=
  match x with
  | L [A tag; A s] => if String.eqb tag "f" then Some (Lf s) else None
  | L [A tag; L kids] =>
      if String.eqb tag "d" then
        option_map D
          ((fix go (l : list sx) : option (list (string * dtree)) :=
              match l with
              | [] => Some []
              | L [A k; t] :: r =>
                  match sx_tree t, go r with
                  | Some t', Some r' => Some ((k, t') :: r')
                  | _, _ => None
                  end
              | _ => None
              end) kids)
      else None
  | _ => None
  end.

Definition sx_ent (x : sx) : option ent := sx_opt sx_tree x.

Fixpoint of_tree (t : dtree) : sx :=
  match t with
  | Lf s => L [A "f"; A s]
  | D l => L [A "d"; L (map (fun kv => L [A (fst kv); of_tree (snd kv)]) l)]
  end.

Definition of_ent (e : ent) : sx := of_opt of_tree e.
Definition of_path (p : path) : sx := of_strings p.

Definition of_status (s : status) : sx :=
  A (match s with Removed => "-" | Modified => "~" | Added => "+" | Unchanged => "0" end).

Definition of_type (t : option objtype) : sx :=
  A (match t with None => "n" | Some TDir => "d" | Some TFile => "f" | Some TSym => "s" end).

Definition of_node (d : dnode) : sx :=
  L [of_path (npath d); of_status (nstatus d); of_ent (nprev d); of_ent (ncurr d);
     of_type (type_of (nprev d)); of_type (type_of (ncurr d));
     of_list of_path (map npath (nrem d));
     of_list of_path (map npath (nmd d));
     of_list of_path (map npath (nadd d))].

Definition of_ann (kv : path * option dnode) : sx :=
  L [of_path (fst kv); of_status (dstatus (snd kv))].

Definition run_c18 (x : sx) : sx :=
  match x with
  | L [pv; cu; qs] =>
      match sx_ent pv, sx_ent cu, sx_map sx_strings qs with
      | Some pv, Some cu, Some qs =>
          if canone pv && canone cu then
            let d := dirdiff pv cu in
            L [of_bool (is_empty d);
               of_list of_node (listing d);
               of_list (fun q => L [of_status (dstatus (get d q)); of_opt of_node (get d q)]) qs;
               of_opt of_ent (run_script (listing d) pv);
               of_list of_ann (annotate d cu);
               of_list of_ann (annotate d pv)]
          else sx_bad "c18: not canonical"
      | _, _, _ => sx_bad "c18: decode"
      end
  | _ => sx_bad "c18"
  end.
