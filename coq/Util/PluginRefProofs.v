(** * Proofs about the plugin-reference model (C16). *)
From Coq Require Import List String Ascii NArith Bool Lia Sorted Permutation.
From MV Require Import Base.Sx Base.Cmp Util.PluginRef.
Import ListNotations.

Lemma vcmp_ok : cmp_ok vcmp.
Proof. apply pcmp_ok; [apply N_cmp_ok | apply pcmp_ok; apply N_cmp_ok]. Qed.

Lemma kcmp_ok : cmp_ok (pcmp scmp (pcmp scmp vcmp)).
Proof. apply pcmp_ok; [apply scmp_ok | apply pcmp_ok; [apply scmp_ok | apply vcmp_ok]]. Qed.

Lemma rkey_inj a b : rkey a = rkey b -> a = b.
Proof. destruct a, b; unfold rkey; simpl; intros H; inversion H; reflexivity. Qed.

Lemma rcmp_ok : cmp_ok rcmp.
Proof.
  unfold rcmp; split.
  - intros x y. rewrite (c_eq kcmp_ok). split; [apply rkey_inj | congruence].
  - intros x y. apply (c_anti kcmp_ok).
  - intros x y z. apply (c_lt_trans kcmp_ok).
Qed.

(** ** Equality, hashing *)

Lemma r_eq_iff a b : r_eq a b = true <-> a = b.
Proof. apply eqb_iff, rcmp_ok. Qed.

Lemma r_eq_fields a b :
  r_eq a b = String.eqb (rgroup a) (rgroup b) && String.eqb (rname a) (rname b)
             && (N.eqb (fst (rver a)) (fst (rver b))
                 && N.eqb (fst (snd (rver a))) (fst (snd (rver b)))
                 && N.eqb (snd (snd (rver a))) (snd (snd (rver b)))).
Proof.
  destruct (r_eq a b) eqn:E.
  - apply r_eq_iff in E; subst. rewrite !String.eqb_refl, !N.eqb_refl. reflexivity.
  - symmetry. apply not_true_is_false. intros H. apply not_true_iff_false in E. apply E.
    apply r_eq_iff. apply andb_prop in H as [H H3]. apply andb_prop in H as [H1 H2].
    apply andb_prop in H3 as [H3 H5]. apply andb_prop in H3 as [H3 H4].
    apply String.eqb_eq in H1, H2. apply N.eqb_eq in H3, H4, H5.
    destruct a as [ga na [a1 [a2 a3]]], b as [gb nb [b1 [b2 b3]]]; simpl in *; congruence.
Qed.

Lemma eq_hash {H} (h : _ -> H) a b : r_eq a b = true -> r_hash h a = r_hash h b.
Proof. intros E; apply r_eq_iff in E; subst; reflexivity. Qed.

(** ** Order axioms for [>=] as Python evaluates it, and consistency of the derived operators *)

Lemma ge_refl a : r_ge a a = true.
Proof. apply geb_refl, rcmp_ok. Qed.

Lemma ge_antisym a b : r_ge a b = true -> r_ge b a = true -> r_eq a b = true.
Proof. intros H1 H2. apply r_eq_iff. exact (geb_antisym rcmp rcmp_ok a b H1 H2). Qed.

Lemma ge_trans a b c : r_ge a b = true -> r_ge b c = true -> r_ge a c = true.
Proof. apply geb_trans, rcmp_ok. Qed.

Lemma ge_total a b : r_ge a b = true \/ r_ge b a = true.
Proof. apply geb_total, rcmp_ok. Qed.

Lemma lt_irrefl a : r_lt a a = false.
Proof. unfold r_lt. rewrite ge_refl. reflexivity. Qed.

Lemma r_lt_ltb a b : r_lt a b = ltb rcmp a b.
Proof. unfold r_lt, r_ge. rewrite ltb_negb_geb. reflexivity. Qed.

Lemma r_le_leb a b : r_le a b = leb rcmp a b.
Proof. unfold r_le, r_ge, r_eq, geb, eqb, leb. destruct (rcmp a b); reflexivity. Qed.

Lemma ops_consistent a b :
  r_le a b = r_ge b a /\ r_gt a b = r_lt b a /\ r_lt a b = negb (r_ge a b) /\
  r_ne a b = negb (r_eq a b) /\ (r_ge a b = r_gt a b || r_eq a b) /\
  (r_eq a b = r_ge a b && r_le a b).
Proof.
  rewrite r_le_leb. unfold r_gt, r_lt, r_ne, r_ge, r_eq, geb, leb, eqb.
  rewrite (c_anti rcmp_ok a b). destruct (rcmp a b); simpl; repeat split.
Qed.

(** Exactly one of [<], [==], [>] holds. *)
Lemma trichotomy a b :
  (r_lt a b = true /\ r_eq a b = false /\ r_gt a b = false) \/
  (r_lt a b = false /\ r_eq a b = true /\ r_gt a b = false) \/
  (r_lt a b = false /\ r_eq a b = false /\ r_gt a b = true).
Proof. unfold r_lt, r_gt, r_ge, r_eq, geb, eqb. destruct (rcmp a b); simpl; auto. Qed.

(** The order really is the lexicographic one on (group, name, version). *)
Lemma ge_lex a b :
  r_ge a b = match scmp (rgroup a) (rgroup b) with
             | Lt => false | Gt => true
             | Eq => match scmp (rname a) (rname b) with
                     | Lt => false | Gt => true
                     | Eq => match vcmp (rver a) (rver b) with Lt => false | _ => true end
                     end
             end.
Proof.
  unfold r_ge, geb, rcmp, pcmp, rkey; simpl.
  destruct (scmp (rgroup a) (rgroup b)); simpl; auto.
  destruct (scmp (rname a) (rname b)); simpl; auto.
Qed.

(** The pinned [__ge__] is not reflexive. *)
Lemma ge_pinned_refuted : exists a, r_ge_pinned a a = false.
Proof. exists (mkref "g" "aa" (0, (0, 0)))%N. vm_compute. reflexivity. Qed.

(** ** supports *)

Lemma supports_spec a b :
  supports a b = true <->
  rgroup a = rgroup b /\ rname a = rname b /\
  vmajor (rver a) = vmajor (rver b) /\ (vminor (rver b) <= vminor (rver a))%N.
Proof.
  unfold supports. rewrite !andb_true_iff, !String.eqb_eq, N.eqb_eq, negb_true_iff, N.ltb_ge.
  tauto.
Qed.

(** ** Sorted insertion, version table *)

Definition le_rel (a b : ref) : Prop := r_le a b = true.

Lemma le_rel_trans a b c : le_rel a b -> le_rel b c -> le_rel a c.
Proof. unfold le_rel. rewrite !r_le_leb. apply leb_trans, rcmp_ok. Qed.

Lemma not_lt_le a b : r_lt a b = false -> le_rel b a.
Proof.
  unfold le_rel. destruct (ops_consistent b a) as [H _]. rewrite H.
  unfold r_lt. rewrite negb_false_iff. auto.
Qed.

Lemma lt_le a b : r_lt a b = true -> le_rel a b.
Proof.
  unfold le_rel, r_le, r_lt. intros H. rewrite H. reflexivity.
Qed.

Lemma insert_perm r l : Permutation (insert r l) (r :: l).
Proof.
  induction l as [|x l IH]; simpl; auto.
  destruct (r_lt r x); auto.
  rewrite IH. apply perm_swap.
Qed.

Lemma insert_In r l x : In x (insert r l) <-> x = r \/ In x l.
Proof.
  split; intros H.
  - apply (Permutation_in _ (insert_perm r l)) in H. destruct H; auto.
  - apply (Permutation_in _ (Permutation_sym (insert_perm r l))). destruct H; [left|right]; auto.
Qed.

Lemma insert_sorted r l : StronglySorted le_rel l -> StronglySorted le_rel (insert r l).
Proof.
  induction 1 as [|x l Hs IH Hall]; simpl.
  - constructor; constructor.
  - destruct (r_lt r x) eqn:E.
    + constructor; [constructor; assumption|].
      constructor; [apply lt_le; exact E|].
      rewrite Forall_forall in *. intros y Hy.
      apply le_rel_trans with x; [apply lt_le; exact E | apply Hall; exact Hy].
    + constructor; [exact IH|].
      rewrite Forall_forall in *. intros y Hy. apply insert_In in Hy as [->|Hy].
      * apply not_lt_le; exact E.
      * apply Hall; exact Hy.
Qed.

Definition tsorted (t : table) : Prop := forall n, StronglySorted le_rel (tget t n).

Lemma tget_tupd t n f m :
  tget (tupd t n f) m = if String.eqb n m then f (tget t n) else tget t m.
Proof.
  induction t as [|[k l] t IH]; simpl.
  - destruct (String.eqb n m) eqn:E; reflexivity.
  - destruct (String.eqb k n) eqn:Ekn; simpl.
    + apply String.eqb_eq in Ekn; subst k. destruct (String.eqb n m); reflexivity.
    + destruct (String.eqb k m) eqn:Ekm.
      * apply String.eqb_eq in Ekm; subst k.
        rewrite String.eqb_sym in Ekn. rewrite Ekn. reflexivity.
      * exact IH.
Qed.

Lemma register_sorted t r : tsorted t -> tsorted (register t r).
Proof.
  intros H n. unfold register. rewrite tget_tupd.
  destruct (String.eqb (rname r) n); [apply insert_sorted|]; apply H.
Qed.

Lemma register_perm t r n :
  Permutation (tget (register t r) n)
              (if String.eqb (rname r) n then r :: tget t n else tget t n).
Proof.
  unfold register. rewrite tget_tupd.
  destruct (String.eqb (rname r) n) eqn:E; auto.
  apply String.eqb_eq in E; subst. apply insert_perm.
Qed.

Definition named (n : string) (r : ref) : bool := String.eqb (rname r) n.

Lemma register_all_gen rs : forall t,
  tsorted t ->
  tsorted (fold_left register rs t) /\
  forall n, Permutation (tget (fold_left register rs t) n) (tget t n ++ filter (named n) rs).
Proof.
  induction rs as [|r rs IH]; intros t Ht; simpl.
  - split; [exact Ht|]. intros n. rewrite app_nil_r. reflexivity.
  - destruct (IH (register t r) (register_sorted t r Ht)) as [Hs Hp].
    split; [exact Hs|]. intros n. rewrite (Hp n), (register_perm t r n).
    unfold named at 2. destruct (String.eqb (rname r) n); auto.
    simpl. apply Permutation_middle.
Qed.

(** Any registration order: every name's list is ascending and holds exactly the
    registered references of that name. *)
Lemma versions_sorted_complete rs g n :
  StronglySorted le_rel (versions (register_all rs) g n None) /\
  Permutation (versions (register_all rs) g n None) (filter (named n) rs).
Proof.
  unfold register_all, versions.
  assert (H0 : tsorted []) by (intros m; constructor).
  destruct (register_all_gen rs [] H0) as [Hs Hp]. split; [apply Hs | apply Hp].
Qed.

Lemma filter_sorted {X} (R : X -> X -> Prop) f l :
  StronglySorted R l -> StronglySorted R (filter f l).
Proof.
  induction 1 as [|x l Hs IH Hall]; simpl; [constructor|].
  destruct (f x); auto. constructor; auto.
  rewrite Forall_forall in *. intros y Hy. apply filter_In in Hy as [Hy _]. auto.
Qed.

Lemma versions_compat_spec rs g n v r :
  In r (versions (register_all rs) g n (Some v)) <->
  In r rs /\ rname r = n /\ supports r (mkref g n v) = true.
Proof.
  unfold versions. rewrite filter_In.
  destruct (versions_sorted_complete rs g n) as [_ Hp]. unfold versions in Hp.
  split.
  - intros [Hin Hsup]. apply (Permutation_in _ Hp) in Hin. apply filter_In in Hin as [Hin Hn].
    apply String.eqb_eq in Hn. auto.
  - intros (Hin & Hn & Hsup). split; auto.
    apply (Permutation_in _ (Permutation_sym Hp)). apply filter_In. split; auto.
    apply String.eqb_eq; exact Hn.
Qed.

Lemma versions_compat_sorted rs g n v :
  StronglySorted le_rel (versions (register_all rs) g n (Some v)).
Proof.
  unfold versions. apply filter_sorted.
  destruct (versions_sorted_complete rs g n) as [Hs _]. exact Hs.
Qed.

Lemma last_sorted_max l : StronglySorted le_rel l ->
  match last (map Some l) None with
  | None => l = []
  | Some r => In r l /\ forall r', In r' l -> le_rel r' r
  end.
Proof.
  induction 1 as [|x l Hs IH Hall]; [reflexivity|].
  change (map Some (x :: l)) with (Some x :: map Some l).
  destruct l as [|y l].
  - simpl. split; auto. intros r' [->|[]]. unfold le_rel.
    destruct (ops_consistent r' r') as [H _]. rewrite H. apply ge_refl.
  - change (last (Some x :: map Some (y :: l)) None) with (last (map Some (y :: l)) None).
    destruct (last (map Some (y :: l)) None) as [r|]; [|discriminate].
    destruct IH as [Hin Hmax]. split; [right; exact Hin|].
    intros r' [->|Hr']; [|apply Hmax; exact Hr'].
    rewrite Forall_forall in Hall. apply Hall; exact Hin.
Qed.

(** [resolve] returns the newest registered version that supports the request, or
    nothing exactly when no registered version does. *)
Lemma resolve_newest rs g n v :
  match resolve (register_all rs) g n (Some v) with
  | Some r => In r rs /\ rname r = n /\ supports r (mkref g n v) = true /\
              forall r', In r' rs -> rname r' = n -> supports r' (mkref g n v) = true -> le_rel r' r
  | None => forall r', In r' rs -> rname r' = n -> supports r' (mkref g n v) = false
  end.
Proof.
  unfold resolve. pose proof (last_sorted_max _ (versions_compat_sorted rs g n v)) as H.
  destruct (last _ None) as [r|].
  - destruct H as [Hin Hmax]. apply versions_compat_spec in Hin as (H1 & H2 & H3).
    repeat split; auto. intros r' Hr' Hn Hs. apply Hmax. apply versions_compat_spec. auto.
  - intros r' Hr' Hn. destruct (supports r' (mkref g n v)) eqn:E; auto.
    assert (Hin : In r' (versions (register_all rs) g n (Some v)))
      by (apply versions_compat_spec; auto).
    rewrite H in Hin. destruct Hin.
Qed.

Lemma resolve_latest rs g n :
  match resolve (register_all rs) g n None with
  | Some r => In r rs /\ rname r = n /\ forall r', In r' rs -> rname r' = n -> le_rel r' r
  | None => forall r', In r' rs -> rname r' <> n
  end.
Proof.
  unfold resolve. destruct (versions_sorted_complete rs g n) as [Hs Hp].
  pose proof (last_sorted_max _ Hs) as H.
  destruct (last _ None) as [r|].
  - destruct H as [Hin Hmax]. apply (Permutation_in _ Hp) in Hin.
    apply filter_In in Hin as [Hin Hn]. apply String.eqb_eq in Hn. repeat split; auto.
    intros r' Hr' Hn'. apply Hmax. apply (Permutation_in _ (Permutation_sym Hp)).
    apply filter_In. split; auto. apply String.eqb_eq; exact Hn'.
  - intros r' Hr' Hn. rewrite H in Hp. apply Permutation_nil in Hp.
    assert (Hin : In r' (filter (named n) rs)) by (apply filter_In; split; auto; apply String.eqb_eq; auto).
    rewrite Hp in Hin. destruct Hin.
Qed.

(** ** Version-less handles *)

Lemma undef_not_subclassable bases :
  In (get_handle false) bases -> subclass bases = None.
Proof.
  intros H. unfold subclass.
  assert (E : existsb marked bases = true) by (apply existsb_exists; exists (get_handle false); auto).
  rewrite E. reflexivity.
Qed.

Lemma versioned_subclassable bases :
  (forall b, In b bases -> marked b = false) -> subclass bases = Some (mkcls false).
Proof.
  intros H. unfold subclass.
  destruct (existsb marked bases) eqn:E; auto.
  apply existsb_exists in E as (b & Hb & Hm). rewrite (H b Hb) in Hm. discriminate.
Qed.
