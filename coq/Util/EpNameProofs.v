(** * Proofs about the entry-point name codec ([Util/EpName.v], [Util/PluginRef.v]). *)
From Coq Require Import List String Ascii NArith Bool Lia Arith.
From Coq Require Import DecimalString DecimalN DecimalFacts Decimal.
From MV Require Import Base.Sx Util.PluginRef Util.EpName.
Import ListNotations.
Local Open Scope string_scope.

(** ** 1. Regular expressions: standard semantics, correctness of the derivative matcher. *)

Inductive Matches : re -> string -> Prop :=
| MEps : Matches Eps ""
| MChr p c : p c = true -> Matches (Chr p) (String c "")
| MCat a b s t : Matches a s -> Matches b t -> Matches (Cat a b) (s ++ t)
| MAltL a b s : Matches a s -> Matches (Alt a b) s
| MAltR a b s : Matches b s -> Matches (Alt a b) s
| MStar0 a : Matches (Star a) ""
| MStarS a s t : Matches a s -> Matches (Star a) t -> Matches (Star a) (s ++ t).

Lemma app_nil_r s : s ++ "" = s.
Proof. induction s; simpl; congruence. Qed.

Lemma app_assoc (a b c : string) : (a ++ b) ++ c = a ++ b ++ c.
Proof. induction a; simpl; congruence. Qed.

Lemma app_eq_nil (a b : string) : a ++ b = "" -> a = "" /\ b = "".
Proof. destruct a; simpl; [auto | discriminate]. Qed.

Lemma Matches_Empty s : ~ Matches Empty s.
Proof. intros H; inversion H. Qed.

Lemma Matches_Eps s : Matches Eps s <-> s = "".
Proof. split; [inversion 1; auto | intros ->; constructor]. Qed.

Lemma Matches_Chr p s : Matches (Chr p) s <-> exists c, s = String c "" /\ p c = true.
Proof.
  split; [inversion 1; eauto | intros (c & -> & H); now constructor].
Qed.

Lemma Matches_Cat a b s :
  Matches (Cat a b) s <-> exists s1 s2, s = s1 ++ s2 /\ Matches a s1 /\ Matches b s2.
Proof.
  split; [inversion 1; eauto | intros (s1 & s2 & -> & H1 & H2); now constructor].
Qed.

Lemma Matches_Alt a b s : Matches (Alt a b) s <-> Matches a s \/ Matches b s.
Proof.
  split; [inversion 1; auto | intros [H|H]; [apply MAltL | apply MAltR]; auto].
Qed.

Lemma nullable_spec r : nullable r = true <-> Matches r "".
Proof.
  induction r; simpl.
  - split; [discriminate | intros H; inversion H].
  - split; [constructor | auto].
  - split; [discriminate | intros H; inversion H].
  - rewrite andb_true_iff, IHr1, IHr2, Matches_Cat. split.
    + intros [H1 H2]. exists "", "". auto.
    + intros (s1 & s2 & E & H1 & H2). symmetry in E. apply app_eq_nil in E as [-> ->]. auto.
  - rewrite orb_true_iff, IHr1, IHr2, Matches_Alt. tauto.
  - split; [constructor | auto].
Qed.

Lemma mkCat_spec a b s : Matches (mkCat a b) s <-> Matches (Cat a b) s.
Proof.
  assert (E : forall a, Matches (Cat a Empty) s <-> Matches Empty s).
  { intros a0. rewrite Matches_Cat. split.
    - intros (? & ? & _ & _ & H). now apply Matches_Empty in H.
    - intros H. now apply Matches_Empty in H. }
  destruct a; simpl.
  - rewrite Matches_Cat. split.
    + intros H. now apply Matches_Empty in H.
    + intros (? & ? & _ & H & _). now apply Matches_Empty in H.
  - rewrite Matches_Cat. split.
    + intros H. exists "", s. repeat split; auto. constructor.
    + intros (s1 & s2 & -> & H1 & H2). apply Matches_Eps in H1. now subst.
  - destruct b; try reflexivity. symmetry. apply E.
  - destruct b; try reflexivity. symmetry. apply E.
  - destruct b; try reflexivity. symmetry. apply E.
  - destruct b; try reflexivity. symmetry. apply E.
Qed.

Lemma mkAlt_spec a b s : Matches (mkAlt a b) s <-> Matches (Alt a b) s.
Proof.
  assert (E : forall a, Matches (Alt a Empty) s <-> Matches a s).
  { intros a0. rewrite Matches_Alt. split; [intros [H|H]; auto; now apply Matches_Empty in H | auto]. }
  destruct a; simpl.
  - rewrite Matches_Alt. split; [auto | intros [H|H]; auto; now apply Matches_Empty in H].
  - destruct b; try reflexivity. symmetry. apply E.
  - destruct b; try reflexivity. symmetry. apply E.
  - destruct b; try reflexivity. symmetry. apply E.
  - destruct b; try reflexivity. symmetry. apply E.
  - destruct b; try reflexivity. symmetry. apply E.
Qed.

(** A non-empty match of [Star a] starts with a non-empty match of [a]. *)
Lemma Matches_Star_cons a c s :
  Matches (Star a) (String c s) ->
  exists s1 s2, s = s1 ++ s2 /\ Matches a (String c s1) /\ Matches (Star a) s2.
Proof.
  intros H. remember (Star a) as r eqn:Er. remember (String c s) as w eqn:Ew.
  revert s Ew. induction H; try discriminate; intros s0 Ew.
  injection Er as ->. destruct s as [|c' s'].
  - simpl in Ew. now apply IHMatches2.
  - simpl in Ew. injection Ew as -> <-. exists s', t. auto.
Qed.

Lemma deriv_spec r : forall c s, Matches (deriv c r) s <-> Matches r (String c s).
Proof.
  induction r; intros c s; simpl.
  - split; intros H; inversion H.
  - split; intros H; inversion H.
  - destruct (p c) eqn:E.
    + rewrite Matches_Eps, Matches_Chr. split.
      * intros ->. eauto.
      * intros (c' & [= -> ->] & _). auto.
    + rewrite Matches_Chr. split; [intros H; inversion H|].
      intros (c' & [= -> ->] & E'). congruence.
  - assert (X : Matches (mkCat (deriv c r1) r2) s <->
                exists s1 s2, s = s1 ++ s2 /\ Matches r1 (String c s1) /\ Matches r2 s2).
    { rewrite mkCat_spec, Matches_Cat. split; intros (s1 & s2 & -> & H1 & H2);
        exists s1, s2; repeat split; auto; now apply IHr1. }
    rewrite Matches_Cat.
    destruct (nullable r1) eqn:N.
    + rewrite mkAlt_spec, Matches_Alt, X, IHr2. split.
      * intros [(s1 & s2 & -> & H1 & H2) | H].
        -- exists (String c s1), s2. auto.
        -- exists "", (String c s). repeat split; auto. now apply nullable_spec.
      * intros (s1 & s2 & E & H1 & H2). destruct s1 as [|c1 s1]; simpl in E.
        -- subst s2. auto.
        -- injection E as <- ->. left. eauto.
    + rewrite X. split.
      * intros (s1 & s2 & -> & H1 & H2). exists (String c s1), s2. auto.
      * intros (s1 & s2 & E & H1 & H2). destruct s1 as [|c1 s1]; simpl in E.
        -- apply nullable_spec in H1. congruence.
        -- injection E as <- ->. eauto.
  - rewrite mkAlt_spec, !Matches_Alt, IHr1, IHr2. tauto.
  - rewrite mkCat_spec, Matches_Cat. split.
    + intros (s1 & s2 & -> & H1 & H2). apply IHr in H1.
      change (String c (s1 ++ s2)) with (String c s1 ++ s2). now constructor.
    + intros H. apply Matches_Star_cons in H as (s1 & s2 & -> & H1 & H2).
      exists s1, s2. repeat split; auto. now apply IHr.
Qed.

Theorem matchb_spec s : forall r, matchb r s = true <-> Matches r s.
Proof.
  induction s as [|c s IH]; intros r; simpl.
  - apply nullable_spec.
  - rewrite IH. apply deriv_spec.
Qed.

(** ** 2. Strings: character predicates, [split], [join]. *)

Fixpoint all_in (p : ascii -> bool) (s : string) : bool :=
  match s with EmptyString => true | String c r => p c && all_in p r end.

Definition not_us (c : ascii) : bool := negb (Ascii.eqb c "_").
Definition not_dot (c : ascii) : bool := negb (Ascii.eqb c ".").
Definition nou (s : string) : bool := all_in not_us s.
Definition nodot (s : string) : bool := all_in not_dot s.

(** every ["_"] is followed by a character other than ["_"] (so: no ["__"], no trailing ["_"]) *)
Fixpoint us_ok (s : string) : bool :=
  match s with
  | EmptyString => true
  | String c r =>
      if Ascii.eqb c "_"
      then match r with EmptyString => false | String d _ => negb (Ascii.eqb d "_") end && us_ok r
      else us_ok r
  end.

Fixpoint join (sep : string) (l : list string) : string :=
  match l with
  | [] => ""
  | [x] => x
  | x :: r => x ++ sep ++ join sep r
  end.

Lemma all_in_app p s t : all_in p (s ++ t) = all_in p s && all_in p t.
Proof. induction s; simpl; [reflexivity | rewrite IHs; apply andb_assoc]. Qed.

Lemma all_in_impl (p q : ascii -> bool) s :
  (forall c, p c = true -> q c = true) -> all_in p s = true -> all_in q s = true.
Proof.
  intros I. induction s; simpl; auto. rewrite !andb_true_iff. intros [H1 H2]. auto.
Qed.

Lemma all_digits_all_in s : all_digits s = all_in c_digit s.
Proof. induction s; simpl; [reflexivity | rewrite IHs; reflexivity]. Qed.

Lemma split_uu_cons c x cur :
  split_uu (String c x) cur =
  if Ascii.eqb c "_" then
    match x with
    | String d rest =>
        if Ascii.eqb d "_" then cur :: split_uu rest "" else split_uu x (cur ++ String c "")
    | EmptyString => split_uu x (cur ++ String c "")
    end
  else split_uu x (cur ++ String c "").
Proof.
  destruct (Ascii.eqb_spec c "_") as [->|N].
  - destruct x as [|d rest]; [reflexivity|].
    destruct (Ascii.eqb_spec d "_") as [->|N]; [reflexivity|].
    destruct d as [[] [] [] [] [] [] [] []]; try reflexivity; now contradiction N.
  - destruct c as [[] [] [] [] [] [] [] []]; try reflexivity; now contradiction N.
Qed.

Lemma split_dot_cons c x cur :
  split_dot (String c x) cur =
  if Ascii.eqb c "." then cur :: split_dot x "" else split_dot x (cur ++ String c "").
Proof.
  destruct (Ascii.eqb_spec c ".") as [->|N]; [reflexivity|].
  destruct c as [[] [] [] [] [] [] [] []]; try reflexivity; now contradiction N.
Qed.

Lemma app_cons_assoc cur c (r : string) : (cur ++ String c "") ++ r = cur ++ String c r.
Proof. rewrite app_assoc. reflexivity. Qed.

Lemma split_uu_nou t : forall cur, nou t = true -> split_uu t cur = [cur ++ t].
Proof.
  induction t as [|c r IH]; intros cur H.
  - simpl. now rewrite app_nil_r.
  - unfold nou in H. simpl in H. apply andb_true_iff in H as [H1 H2].
    rewrite split_uu_cons. unfold not_us in H1. apply negb_true_iff in H1. rewrite H1.
    rewrite IH by exact H2. now rewrite app_cons_assoc.
Qed.

Lemma split_uu_app n : forall t cur,
  us_ok n = true -> nou t = true -> split_uu (n ++ "__" ++ t) cur = [cur ++ n; t].
Proof.
  induction n as [|c r IH]; intros t cur Hn Ht.
  - simpl. rewrite app_nil_r. now rewrite (split_uu_nou t "" Ht).
  - simpl in Hn. change (String c r ++ "__" ++ t) with (String c (r ++ "__" ++ t)).
    rewrite split_uu_cons. destruct (Ascii.eqb c "_") eqn:E.
    + apply andb_true_iff in Hn as [H1 H2]. destruct r as [|d r']; [discriminate|].
      apply negb_true_iff in H1.
      change (String d r' ++ "__" ++ t) with (String d (r' ++ "__" ++ t)).
      cbv beta iota. rewrite H1.
      change (String d (r' ++ "__" ++ t)) with (String d r' ++ "__" ++ t).
      rewrite IH by assumption. now rewrite app_cons_assoc.
    + rewrite IH by assumption. now rewrite app_cons_assoc.
Qed.

Lemma split_dot_nodot t : forall cur, nodot t = true -> split_dot t cur = [cur ++ t].
Proof.
  induction t as [|c r IH]; intros cur H.
  - simpl. now rewrite app_nil_r.
  - unfold nodot in H. simpl in H. apply andb_true_iff in H as [H1 H2].
    rewrite split_dot_cons. unfold not_dot in H1. apply negb_true_iff in H1. rewrite H1.
    rewrite IH by exact H2. now rewrite app_cons_assoc.
Qed.

Lemma split_dot_app a : forall t cur,
  nodot a = true -> split_dot (a ++ "." ++ t) cur = (cur ++ a) :: split_dot t "".
Proof.
  induction a as [|c r IH]; intros t cur H.
  - simpl. now rewrite app_nil_r.
  - unfold nodot in H. simpl in H. apply andb_true_iff in H as [H1 H2].
    change (String c r ++ "." ++ t) with (String c (r ++ "." ++ t)).
    rewrite split_dot_cons. unfold not_dot in H1. apply negb_true_iff in H1. rewrite H1.
    rewrite IH by exact H2. now rewrite app_cons_assoc.
Qed.

Lemma split_dot3 a b c :
  nodot a = true -> nodot b = true -> nodot c = true ->
  split_dot (a ++ "." ++ b ++ "." ++ c) "" = [a; b; c].
Proof.
  intros Ha Hb Hc. rewrite split_dot_app by assumption. rewrite split_dot_app by assumption.
  now rewrite split_dot_nodot by assumption.
Qed.

Lemma split_dot_nonnil s : forall cur, split_dot s cur <> [].
Proof.
  induction s as [|c r IH]; intros cur; [discriminate|].
  rewrite split_dot_cons. destruct (Ascii.eqb c "."); [discriminate | apply IH].
Qed.

Lemma split_dot_join s : forall cur, join "." (split_dot s cur) = cur ++ s.
Proof.
  induction s as [|c r IH]; intros cur; [simpl; now rewrite app_nil_r|].
  rewrite split_dot_cons. destruct (Ascii.eqb_spec c ".") as [->|N].
  - specialize (IH ""). simpl in IH. 
    destruct (split_dot r "") eqn:E; [now apply split_dot_nonnil in E|].
    change (join "." (cur :: s :: l)) with (cur ++ "." ++ join "." (s :: l)). now rewrite IH.
  - rewrite IH. now rewrite app_cons_assoc.
Qed.

Lemma split_uu_nonnil_join n : forall s cur, String.length s <= n ->
  split_uu s cur <> [] /\ join "__" (split_uu s cur) = cur ++ s.
Proof.
  induction n as [|n IH]; intros s cur L.
  - destruct s; [|simpl in L; lia]. split; [discriminate | simpl; now rewrite app_nil_r].
  - destruct s as [|c x]; [split; [discriminate | simpl; now rewrite app_nil_r]|].
    simpl in L. rewrite split_uu_cons.
    assert (D : split_uu x (cur ++ String c "") <> [] /\
                join "__" (split_uu x (cur ++ String c "")) = cur ++ String c x).
    { destruct (IH x (cur ++ String c "")) as [A B]; [lia|]. split; auto.
      now rewrite B, app_cons_assoc. }
    destruct (Ascii.eqb_spec c "_") as [->|N]; [|exact D].
    destruct x as [|d rest]; [exact D|].
    destruct (Ascii.eqb_spec d "_") as [->|N]; [|exact D].
    split; [discriminate|]. simpl in L.
    destruct (IH rest "") as [A B]; [lia|]. simpl in B.
    destruct (split_uu rest "") eqn:E; [now contradiction A|].
    change (join "__" (cur :: s :: l)) with (cur ++ "__" ++ join "__" (s :: l)). now rewrite B.
Qed.

Lemma split_uu_join s cur : join "__" (split_uu s cur) = cur ++ s.
Proof. now apply (split_uu_nonnil_join (String.length s)). Qed.

Lemma split_uu_two s n p : split_uu s "" = [n; p] -> s = n ++ "__" ++ p.
Proof. intros H. pose proof (split_uu_join s "") as J. rewrite H in J. simpl in J. auto. Qed.

Lemma split_dot_three s a b c : split_dot s "" = [a; b; c] -> s = a ++ "." ++ b ++ "." ++ c.
Proof. intros H. pose proof (split_dot_join s "") as J. rewrite H in J. simpl in J. auto. Qed.

Lemma us_ok_app s t : us_ok s = true -> us_ok t = true -> us_ok (s ++ t) = true.
Proof.
  intros Hs Ht. induction s as [|c r IH]; [exact Ht|].
  simpl in *. destruct (Ascii.eqb c "_").
  - apply andb_true_iff in Hs as [H1 H2]. rewrite IH by exact H2.
    destruct r; [discriminate|]. simpl. now rewrite H1.
  - auto.
Qed.

Lemma nou_app_uu x y : nou (x ++ "__" ++ y) = false.
Proof. unfold nou. rewrite all_in_app. simpl. apply andb_false_r. Qed.

Lemma app_uu_inj n : forall n' t t',
  nou t = true -> nou t' = true -> n ++ "__" ++ t = n' ++ "__" ++ t' -> n = n' /\ t = t'.
Proof.
  assert (K : forall c r t t', nou t = true -> "__" ++ t = String c r ++ "__" ++ t' -> False).
  { intros c r t t' Ht E. simpl in E. injection E as <- E.
    destruct r as [|d r]; simpl in E.
    - injection E as ->. unfold nou in Ht. simpl in Ht. discriminate.
    - injection E as <- E. subst t. change (nou (r ++ "__" ++ t') = true) in Ht.
      now rewrite nou_app_uu in Ht. }
  induction n as [|c r IH]; intros n' t t' Ht Ht' E.
  - destruct n' as [|c' r']; [simpl in E; injection E as ->; auto|].
    exact (False_ind _ (K _ _ _ _ Ht E)).
  - destruct n' as [|c' r'].
    + exact (False_ind _ (K _ _ _ _ Ht' (eq_sym E))).
    + simpl in E. injection E as -> E. destruct (IH _ _ _ Ht Ht' E) as [-> ->]. auto.
Qed.

Lemma app_inv_head (a b c : string) : a ++ b = a ++ c -> b = c.
Proof. induction a; simpl; [auto | intros [= H]; auto]. Qed.

(** ** 3. What the expressions of types.py match. *)

Lemma Matches_Star_closed (P : string -> Prop) a :
  P "" -> (forall s t, Matches a s -> P t -> P (s ++ t)) ->
  forall s, Matches (Star a) s -> P s.
Proof.
  intros P0 PS s H. remember (Star a) as r eqn:Er. induction H; try discriminate.
  - exact P0.
  - injection Er as ->. apply PS; auto.
Qed.

Lemma Matches_Lit t s : Matches (Lit t) s <-> s = t.
Proof.
  revert s. induction t as [|c r IH]; intros s; simpl.
  - apply Matches_Eps.
  - rewrite Matches_Cat. split.
    + intros (s1 & s2 & -> & H1 & H2). apply Matches_Chr in H1 as (c' & -> & E).
      apply IH in H2 as ->. apply Ascii.eqb_eq in E as ->. reflexivity.
    + intros ->. exists (String c ""), r. repeat split.
      * constructor. apply Ascii.eqb_refl.
      * now apply IH.
Qed.

Lemma Matches_Star_Chr p s : Matches (Star (Chr p)) s <-> all_in p s = true.
Proof.
  split.
  - intros H. pattern s. revert s H. apply Matches_Star_closed; [reflexivity|].
    intros s1 t H1 Ht. apply Matches_Chr in H1 as (c & -> & E). simpl. now rewrite E.
  - induction s as [|c r IH]; simpl; [constructor|].
    rewrite andb_true_iff. intros [H1 H2].
    change (String c r) with (String c "" ++ r). constructor; [now constructor | auto].
Qed.

(** [p+] for a character class [p]. *)
Definition nonempty (s : string) : bool := match s with EmptyString => false | _ => true end.

Lemma Matches_Plus_Chr p s :
  Matches (Plus (Chr p)) s <-> nonempty s = true /\ all_in p s = true.
Proof.
  unfold Plus. rewrite Matches_Cat. split.
  - intros (s1 & s2 & -> & H1 & H2). apply Matches_Chr in H1 as (c & -> & E).
    apply Matches_Star_Chr in H2. simpl. now rewrite E, H2.
  - intros [N A]. destruct s as [|c r]; [discriminate|]. simpl in A.
    apply andb_true_iff in A as [A1 A2]. exists (String c ""), r. repeat split.
    + now constructor.
    + now apply Matches_Star_Chr.
Qed.

Definition digits1 (s : string) : bool := nonempty s && all_in c_digit s.

Lemma SEMVER_spec p :
  Matches SEMVER_STR_REGEX p <->
  exists a b c, p = a ++ "." ++ b ++ "." ++ c /\
                digits1 a = true /\ digits1 b = true /\ digits1 c = true.
Proof.
  unfold SEMVER_STR_REGEX, DIGIT, digits1. split.
  - intros H.
    apply Matches_Cat in H as (a & r1 & -> & Ha & H).
    apply Matches_Cat in H as (d1 & r2 & -> & Hd1 & H).
    apply Matches_Cat in H as (b & r3 & -> & Hb & H).
    apply Matches_Cat in H as (d2 & c & -> & Hd2 & Hc).
    apply Matches_Lit in Hd1 as ->. apply Matches_Lit in Hd2 as ->.
    apply Matches_Plus_Chr in Ha, Hb, Hc. exists a, b, c.
    rewrite !andb_true_iff. auto.
  - intros (a & b & c & -> & Ha & Hb & Hc). rewrite andb_true_iff in Ha, Hb, Hc.
    repeat (constructor; try (now apply Matches_Plus_Chr); try (now apply Matches_Lit)).
Qed.

Lemma c_digit_not_dot c : c_digit c = true -> not_dot c = true.
Proof. intros H. unfold not_dot. destruct (Ascii.eqb_spec c "."); [subst; discriminate | reflexivity]. Qed.

Lemma c_digit_not_us c : c_digit c = true -> not_us c = true.
Proof. intros H. unfold not_us. destruct (Ascii.eqb_spec c "_"); [subst; discriminate | reflexivity]. Qed.

Lemma digits1_nodot a : digits1 a = true -> nodot a = true.
Proof.
  unfold digits1. rewrite andb_true_iff. intros [_ H].
  eapply all_in_impl; [apply c_digit_not_dot | exact H].
Qed.

Lemma digits1_nou a : digits1 a = true -> nou a = true.
Proof.
  unfold digits1. rewrite andb_true_iff. intros [_ H].
  eapply all_in_impl; [apply c_digit_not_us | exact H].
Qed.

Lemma semver_shape_nou a b c :
  digits1 a = true -> digits1 b = true -> digits1 c = true ->
  nou (a ++ "." ++ b ++ "." ++ c) = true.
Proof.
  intros Ha Hb Hc. unfold nou. rewrite !all_in_app. simpl.
  apply digits1_nou in Ha, Hb, Hc. unfold nou in *. now rewrite Ha, Hb, Hc.
Qed.

(** [valid_semver]: exactly three non-empty digit strings separated by dots. *)
Lemma valid_semver_spec p :
  valid_semver p = true <->
  exists a b c, split_dot p "" = [a; b; c] /\
                digits1 a = true /\ digits1 b = true /\ digits1 c = true.
Proof.
  unfold valid_semver. rewrite matchb_spec, SEMVER_spec. split.
  - intros (a & b & c & -> & Ha & Hb & Hc). exists a, b, c. repeat split; auto.
    apply split_dot3; now apply digits1_nodot.
  - intros (a & b & c & E & H). exists a, b, c. split; auto. now apply split_dot_three.
Qed.

(** Every ["_"] inside a qualified name is followed by a letter or digit. *)
Lemma c_alnum_not_us c : c_alnum c = true -> Ascii.eqb c "_" = false.
Proof. intros H. destruct (Ascii.eqb_spec c "_"); [subst; discriminate | reflexivity]. Qed.

Lemma c_letter_not_us c : c_letter c = true -> Ascii.eqb c "_" = false.
Proof. intros H. destruct (Ascii.eqb_spec c "_"); [subst; discriminate | reflexivity]. Qed.

Lemma c_nssep_not_us c : c_nssep c = true -> Ascii.eqb c "_" = false.
Proof. intros H. destruct (Ascii.eqb_spec c "_"); [subst; discriminate | reflexivity]. Qed.

Lemma Chr_us_ok p s :
  (forall c, p c = true -> Ascii.eqb c "_" = false) -> Matches (Chr p) s -> us_ok s = true.
Proof. intros I H. apply Matches_Chr in H as (c & -> & E). simpl. now rewrite (I c E). Qed.

Lemma NAME_us_ok s : Matches NAME s -> us_ok s = true.
Proof.
  unfold NAME, NAME_TAIL, LETTER, ALNUM, LETSEP, Opt. intros H.
  apply Matches_Cat in H as (s1 & r1 & -> & H1 & H).
  apply Matches_Cat in H as (s2 & r2 & -> & H2 & H).
  apply us_ok_app; [eapply Chr_us_ok; [apply c_letter_not_us | eauto]|].
  apply us_ok_app; [eapply Chr_us_ok; [apply c_alnum_not_us | eauto]|].
  pattern r2. revert r2 H. apply Matches_Star_closed; [reflexivity|].
  intros s t Hs Ht. apply us_ok_app; auto.
  apply Matches_Cat in Hs as (o & x & -> & Ho & Hx).
  apply Matches_Chr in Hx as (c & -> & E). apply c_alnum_not_us in E.
  apply Matches_Alt in Ho as [Ho|Ho].
  - apply Matches_Eps in Ho as ->. simpl. now rewrite E.
  - apply Matches_Chr in Ho as (d & -> & _). simpl. rewrite E. simpl. now destruct (Ascii.eqb d "_").
Qed.

Lemma QUAL_NAME_us_ok s : Matches QUAL_NAME s -> us_ok s = true.
Proof.
  unfold QUAL_NAME, NSSEP. intros H.
  apply Matches_Cat in H as (s1 & r1 & -> & H1 & H).
  apply us_ok_app; [now apply NAME_us_ok|].
  pattern r1. revert r1 H. apply Matches_Star_closed; [reflexivity|].
  intros s t Hs Ht. apply us_ok_app; auto.
  apply Matches_Cat in Hs as (o & x & -> & Ho & Hx).
  apply us_ok_app; [eapply Chr_us_ok; [apply c_nssep_not_us | eauto] | now apply NAME_us_ok].
Qed.

Lemma valid_qualname_us_ok n : valid_qualname n = true -> us_ok n = true.
Proof. unfold valid_qualname. rewrite matchb_spec. apply QUAL_NAME_us_ok. Qed.

(** An entry-point name is valid iff it is a valid qualified name, ["__"], a version string. *)
Lemma valid_epname_spec s :
  valid_epname s = true <->
  exists n p, s = n ++ "__" ++ p /\ valid_qualname n = true /\ valid_semver p = true.
Proof.
  unfold valid_epname, valid_qualname, valid_semver, EP_NAME_REGEX, EP_NAME_VER_SEP.
  rewrite matchb_spec. split.
  - intros H. apply Matches_Cat in H as (n & r & -> & Hn & H).
    apply Matches_Cat in H as (u & p & -> & Hu & Hp). apply Matches_Lit in Hu as ->.
    exists n, p. rewrite !matchb_spec. auto.
  - intros (n & p & -> & Hn & Hp). rewrite matchb_spec in Hn, Hp.
    repeat (constructor; auto). now apply Matches_Lit.
Qed.

(** ** 4. Decimal numerals. *)

Lemma uint_digits u : all_in c_digit (NilEmpty.string_of_uint u) = true.
Proof. induction u; simpl; auto. Qed.

Lemma NilZero_nonnil d : d <> Nil -> NilZero.string_of_uint d = NilEmpty.string_of_uint d.
Proof. destruct d; try reflexivity. now intros H. Qed.

Lemma string_of_uint_nonempty d : d <> Nil -> nonempty (NilEmpty.string_of_uint d) = true.
Proof. destruct d; try reflexivity. now intros H. Qed.

Lemma to_uint_nonnil x : N.to_uint x <> Nil.
Proof.
  intros E. pose proof (Unsigned.to_of (N.to_uint x)) as H. rewrite Unsigned.of_to in H.
  rewrite E in H. discriminate.
Qed.

Lemma string_of_N_digits1 x : digits1 (string_of_N x) = true.
Proof.
  unfold string_of_N, digits1. rewrite NilZero_nonnil by apply to_uint_nonnil.
  rewrite string_of_uint_nonempty by apply to_uint_nonnil. apply uint_digits.
Qed.

Lemma N_of_string_of_N x : N_of_string (string_of_N x) = Some x.
Proof.
  unfold string_of_N, N_of_string. rewrite NilZero_nonnil by apply to_uint_nonnil.
  rewrite NilEmpty.usu. now rewrite Unsigned.of_to.
Qed.

Lemma parse_num_digits1 s : parse_num s = if digits1 s then N_of_string s else None.
Proof.
  unfold parse_num, digits1. rewrite all_digits_all_in. destruct s; reflexivity.
Qed.

Lemma parse_num_string_of_N x : parse_num (string_of_N x) = Some x.
Proof. now rewrite parse_num_digits1, string_of_N_digits1, N_of_string_of_N. Qed.

Lemma all_digits_uint s : all_in c_digit s = true -> exists u, NilEmpty.uint_of_string s = Some u.
Proof.
  induction s as [|c r IH]; simpl; [eauto|].
  rewrite andb_true_iff. intros [H1 H2]. destruct (IH H2) as [u ->].
  destruct c as [[] [] [] [] [] [] [] []]; try discriminate; simpl; eauto.
Qed.

Lemma digits1_N_of_string s : digits1 s = true -> exists k, N_of_string s = Some k.
Proof.
  unfold digits1, N_of_string. rewrite andb_true_iff. intros [_ H].
  destruct (all_digits_uint s H) as [u ->]. eauto.
Qed.

Lemma string_of_uint_inj d d' :
  NilEmpty.string_of_uint d = NilEmpty.string_of_uint d' -> d = d'.
Proof.
  intros E. pose proof (NilEmpty.usu d) as H. rewrite E, NilEmpty.usu in H. congruence.
Qed.

(** Printing a parsed numeral gives it back exactly when it has no leading zero. *)
Lemma canon_spec s k : parse_num s = Some k -> (string_of_N k = s <-> canon_num s = true).
Proof.
  rewrite parse_num_digits1. destruct (digits1 s) eqn:D; [|discriminate].
  unfold N_of_string. destruct (NilEmpty.uint_of_string s) as [u|] eqn:U; [|discriminate].
  intros [= <-]. apply NilEmpty.sus in U. subst s.
  unfold string_of_N. rewrite Unsigned.to_of, NilZero_nonnil by apply unorm_nonnil.
  unfold digits1 in D. apply andb_true_iff in D as [NE _].
  assert (X : unorm u = u <-> canon_num (NilEmpty.string_of_uint u) = true).
  { destruct u as [|u|u|u|u|u|u|u|u|u|u]; try discriminate;
      try (split; reflexivity).
    destruct u as [|u|u|u|u|u|u|u|u|u|u]; try (split; reflexivity);
      (split; [|discriminate]); rewrite unorm_D0; intros E;
      match type of E with unorm ?w = _ =>
        assert (L : nb_digits (unorm w) <= nb_digits w) by (apply nb_digits_unorm; discriminate);
        rewrite E in L; simpl in L; lia
      end. }
  rewrite <- X. split; [apply string_of_uint_inj | congruence].
Qed.

(** ** 5. The codec theorems. *)

Lemma semver_str_shape v :
  semver_str v = string_of_N (fst v) ++ "." ++ string_of_N (fst (snd v)) ++ "." ++ string_of_N (snd (snd v)).
Proof. reflexivity. Qed.

Lemma parse_semver_semver_str v : parse_semver (semver_str v) = Some v.
Proof.
  destruct v as (a, (b, c)). unfold parse_semver. rewrite semver_str_shape. simpl fst; simpl snd.
  rewrite split_dot3 by (apply digits1_nodot, string_of_N_digits1).
  now rewrite !parse_num_string_of_N.
Qed.

Lemma semver_str_nou v : nou (semver_str v) = true.
Proof. rewrite semver_str_shape. apply semver_shape_nou; apply string_of_N_digits1. Qed.

Lemma valid_semver_semver_str v : valid_semver (semver_str v) = true.
Proof.
  apply valid_semver_spec. rewrite semver_str_shape.
  exists (string_of_N (fst v)), (string_of_N (fst (snd v))), (string_of_N (snd (snd v))).
  split; [apply split_dot3; apply digits1_nodot, string_of_N_digits1|].
  repeat split; apply string_of_N_digits1.
Qed.

Lemma from_semver_str_semver_str v :
  from_semver_str (semver_str v) = [Some (fst v); Some (fst (snd v)); Some (snd (snd v))].
Proof.
  unfold from_semver_str. rewrite semver_str_shape.
  rewrite split_dot3 by (apply digits1_nodot, string_of_N_digits1).
  simpl. now rewrite !N_of_string_of_N.
Qed.

Theorem semver_roundtrip v :
  valid_semver (semver_str v) = true /\
  from_semver_str (semver_str v) = [Some (fst v); Some (fst (snd v)); Some (snd (snd v))] /\
  parse_semver (semver_str v) = Some v.
Proof.
  auto using valid_semver_semver_str, from_semver_str_semver_str, parse_semver_semver_str.
Qed.

Lemma epname_roundtrip_gen n v : us_ok n = true -> from_ep_name (to_ep_name n v) = Some (n, v).
Proof.
  intros H. unfold from_ep_name, to_ep_name.
  rewrite split_uu_app by (auto using semver_str_nou). simpl.
  now rewrite parse_semver_semver_str.
Qed.

Theorem epname_roundtrip n v :
  valid_qualname n = true -> from_ep_name (to_ep_name n v) = Some (n, v).
Proof. intros H. apply epname_roundtrip_gen. now apply valid_qualname_us_ok. Qed.

Theorem epname_inj n v n' v' :
  valid_qualname n = true -> valid_qualname n' = true ->
  to_ep_name n v = to_ep_name n' v' -> n = n' /\ v = v'.
Proof.
  intros H H' E. pose proof (epname_roundtrip n v H) as R.
  rewrite E, (epname_roundtrip n' v' H') in R. injection R as -> ->. auto.
Qed.

(** The literal transcription (regex validation, split, [int]) computes the same function
    as the parser of [Util/PluginRef.v], on every string. *)
Theorem from_ep_name_py_equiv s : from_ep_name_py s = from_ep_name s.
Proof.
  unfold from_ep_name_py, from_ep_name.
  destruct (split_uu s "") as [|n [|p [|? ?]]]; try reflexivity.
  destruct (valid_semver p) eqn:V.
  - apply valid_semver_spec in V as (a & b & c & E & Ha & Hb & Hc).
    unfold from_semver_str, parse_semver. rewrite E. simpl map.
    rewrite !parse_num_digits1, Ha, Hb, Hc.
    destruct (digits1_N_of_string a Ha) as [ka ->].
    destruct (digits1_N_of_string b Hb) as [kb ->].
    destruct (digits1_N_of_string c Hc) as [kc ->]. reflexivity.
  - unfold parse_semver.
    destruct (split_dot p "") as [|a [|b [|c [|? ?]]]] eqn:E; try reflexivity.
    rewrite !parse_num_digits1.
    destruct (digits1 a) eqn:Ha, (digits1 b) eqn:Hb, (digits1 c) eqn:Hc;
      try (repeat match goal with |- context [N_of_string ?x] => destruct (N_of_string x) end;
           reflexivity).
    exfalso. assert (valid_semver p = true); [|congruence].
    apply valid_semver_spec. exists a, b, c. auto.
Qed.

Theorem epname_roundtrip_py n v :
  valid_qualname n = true -> from_ep_name_py (to_ep_name n v) = Some (n, v).
Proof. intros H. rewrite from_ep_name_py_equiv. now apply epname_roundtrip. Qed.

Lemma valid_semver_nou p : valid_semver p = true -> nou p = true.
Proof.
  intros H. apply valid_semver_spec in H as (a & b & c & E & Ha & Hb & Hc).
  apply split_dot_three in E as ->. now apply semver_shape_nou.
Qed.

(** [EPName(...)] inside [to_ep_name] accepts exactly the valid qualified names. *)
Theorem epname_valid n v : valid_epname (to_ep_name n v) = valid_qualname n.
Proof.
  apply eq_true_iff_eq. rewrite valid_epname_spec. unfold to_ep_name. split.
  - intros (n' & p & E & Hn & Hp).
    apply app_uu_inj in E as [-> _]; auto using semver_str_nou, valid_semver_nou.
  - intros H. exists n, (semver_str v). auto using valid_semver_semver_str.
Qed.

Theorem to_ep_name_py_spec n v :
  to_ep_name_py n v = if valid_qualname n then Some (to_ep_name n v) else None.
Proof. unfold to_ep_name_py. now rewrite epname_valid. Qed.

(** Every valid entry-point name decodes, to a valid qualified name. *)
Theorem epname_decodes s :
  valid_epname s = true ->
  exists n v, from_ep_name s = Some (n, v) /\ valid_qualname n = true.
Proof.
  intros H. apply valid_epname_spec in H as (n & p & -> & Hn & Hp).
  unfold from_ep_name.
  rewrite split_uu_app by (auto using valid_qualname_us_ok, valid_semver_nou). simpl.
  apply valid_semver_spec in Hp as (a & b & c & E & Ha & Hb & Hc).
  unfold parse_semver. rewrite E, !parse_num_digits1, Ha, Hb, Hc.
  destruct (digits1_N_of_string a Ha) as [ka ->].
  destruct (digits1_N_of_string b Hb) as [kb ->].
  destruct (digits1_N_of_string c Hc) as [kc ->]. eauto.
Qed.

Lemma parse_num_nodot a k : parse_num a = Some k -> nodot a = true.
Proof.
  rewrite parse_num_digits1. destruct (digits1 a) eqn:D; [|discriminate].
  intros _. now apply digits1_nodot.
Qed.

(** Decoding then encoding gives the string back exactly for canonical numerals. *)
Theorem epname_inverse s n v :
  from_ep_name s = Some (n, v) -> (to_ep_name n v = s <-> canon_epname s = true).
Proof.
  unfold from_ep_name, canon_epname.
  destruct (split_uu s "") as [|n0 [|p [|? ?]]] eqn:U; try discriminate.
  destruct (parse_semver p) as [v0|] eqn:P; [|discriminate]. intros [= -> ->].
  apply split_uu_two in U. subst s. unfold parse_semver in P.
  destruct (split_dot p "") as [|a [|b [|c [|? ?]]]] eqn:E; try discriminate.
  destruct (parse_num a) as [ka|] eqn:Pa; [|discriminate].
  destruct (parse_num b) as [kb|] eqn:Pb; [|discriminate].
  destruct (parse_num c) as [kc|] eqn:Pc; [|discriminate].
  injection P as <-. apply split_dot_three in E as Ep.
  unfold to_ep_name. rewrite semver_str_shape. simpl fst; simpl snd. simpl forallb.
  rewrite !andb_true_iff.
  rewrite <- (canon_spec a ka Pa), <- (canon_spec b kb Pb), <- (canon_spec c kc Pc).
  split.
  - intros H. do 2 apply app_inv_head in H. rewrite Ep in H.
    apply (f_equal (fun x => split_dot x "")) in H.
    rewrite !split_dot3 in H by
      (eauto using parse_num_nodot; apply digits1_nodot, string_of_N_digits1).
    injection H as -> -> ->. auto.
  - intros (-> & -> & -> & _). now rewrite Ep.
Qed.

Lemma epname_inverse_noncanonical_refuted :
  exists s n v, valid_epname s = true /\ from_ep_name s = Some (n, v) /\ to_ep_name n v <> s.
Proof.
  exists "aa__01.2.3", "aa", (1, (2, 3))%N. vm_compute. repeat split. discriminate.
Qed.

Lemma qualname_with_uu_refuted : exists n, valid_qualname n = false /\
  exists v, from_ep_name (to_ep_name n v) <> Some (n, v).
Proof. exists "ab__cd". split; [reflexivity|]. exists (1, (2, 3))%N. vm_compute. discriminate. Qed.

(** ** 6. [QUAL_NAME] as the automaton [qrun] of [Util/EpName.v]. *)

Lemma matchb_Empty s : matchb Empty s = false.
Proof. induction s; simpl; auto. Qed.

Lemma c_letsep_cases c : c_letsep c = true -> c = "_"%char \/ c = "-"%char.
Proof.
  unfold c_letsep. rewrite orb_true_iff. intros [H|H]; apply Ascii.eqb_eq in H; auto.
Qed.

Lemma c_alnum_excl c : c_alnum c = true -> c_letsep c = false /\ c_nssep c = false.
Proof.
  intros H. split.
  - destruct (c_letsep c) eqn:E; auto. apply c_letsep_cases in E as [->| ->]; discriminate.
  - destruct (c_nssep c) eqn:E; auto. apply Ascii.eqb_eq in E as ->. discriminate.
Qed.

Lemma c_letsep_excl c : c_letsep c = true -> c_nssep c = false.
Proof. intros H. apply c_letsep_cases in H as [->| ->]; reflexivity. Qed.

Definition R_second : re := Cat (Cat ALNUM NAME_TAIL) (Star (Cat NSSEP NAME)).
Definition R_body : re := Cat NAME_TAIL (Star (Cat NSSEP NAME)).

Lemma deriv_start c : deriv c QUAL_NAME = if c_letter c then R_second else Empty.
Proof. unfold QUAL_NAME, NAME, LETTER. simpl. destruct (c_letter c); reflexivity. Qed.

Lemma deriv_second c : deriv c R_second = if c_alnum c then R_body else Empty.
Proof. unfold R_second, ALNUM. simpl. destruct (c_alnum c); reflexivity. Qed.

Lemma deriv_body c :
  deriv c R_body = if c_alnum c then R_body
                   else if c_letsep c then R_second
                   else if c_nssep c then QUAL_NAME else Empty.
Proof.
  unfold R_body, R_second, QUAL_NAME, NAME_TAIL, NAME, Opt, ALNUM, LETSEP, NSSEP, LETTER. simpl.
  destruct (c_alnum c) eqn:A.
  - destruct (c_alnum_excl c A) as [-> ->]. reflexivity.
  - destruct (c_letsep c) eqn:S.
    + rewrite (c_letsep_excl c S). reflexivity.
    + destruct (c_nssep c); reflexivity.
Qed.

Lemma qualname_automaton s :
  matchb QUAL_NAME s = qrun QStart s /\ matchb R_second s = qrun QSecond s /\
  matchb R_body s = qrun QBody s /\ matchb R_second s = qrun QSep s.
Proof.
  induction s as [|c r (I0 & I1 & I2 & I3)]; [repeat split|].
  cbn [matchb qrun qstep]. rewrite deriv_start, deriv_second, deriv_body.
  repeat split.
  - destruct (c_letter c); [exact I1 | apply matchb_Empty].
  - destruct (c_alnum c); [exact I2 | apply matchb_Empty].
  - destruct (c_alnum c); [exact I2|]. destruct (c_letsep c); [exact I3|].
    destruct (c_nssep c); [exact I0 | apply matchb_Empty].
  - destruct (c_alnum c); [exact I2 | apply matchb_Empty].
Qed.

Theorem valid_qualname_automaton n : valid_qualname n = qrun QStart n.
Proof. apply qualname_automaton. Qed.
