(** * Cmp: well-behaved three-way comparisons and their lexicographic products.

    Used by the models of [PluginRef] ordering (C16) and of sorted directory
    listings (C18, C19).  Python compares [str] by code point and tuples
    lexicographically; for ASCII strings that is [scmp] below. *)
From Coq Require Import List String Ascii NArith Bool Lia.
Import ListNotations.

Record cmp_ok {X : Type} (c : X -> X -> comparison) : Prop := {
  c_eq : forall x y, c x y = Eq <-> x = y;
  c_anti : forall x y, c y x = CompOpp (c x y);
  c_lt_trans : forall x y z, c x y = Lt -> c y z = Lt -> c x z = Lt
}.
Arguments c_eq {X c}. Arguments c_anti {X c}. Arguments c_lt_trans {X c}.

Lemma c_refl {X} {c : X -> X -> comparison} (H : cmp_ok c) x : c x x = Eq.
Proof. apply (c_eq H); reflexivity. Qed.

Lemma c_gt_lt {X} {c : X -> X -> comparison} (H : cmp_ok c) x y : c x y = Gt <-> c y x = Lt.
Proof. rewrite (c_anti H x y). destruct (c x y); simpl; split; congruence. Qed.

(** ** Base instances *)

Lemma N_cmp_ok : cmp_ok N.compare.
Proof.
  split.
  - intros x y; apply N.compare_eq_iff.
  - intros x y; apply N.compare_antisym.
  - intros x y z; rewrite !N.compare_lt_iff; lia.
Qed.

Definition acmp (a b : ascii) : comparison := N.compare (N_of_ascii a) (N_of_ascii b).

Lemma N_of_ascii_inj a b : N_of_ascii a = N_of_ascii b -> a = b.
Proof. intros H. rewrite <- (ascii_N_embedding a), <- (ascii_N_embedding b), H. reflexivity. Qed.

Lemma acmp_ok : cmp_ok acmp.
Proof.
  unfold acmp; split.
  - intros x y; rewrite N.compare_eq_iff; split; [apply N_of_ascii_inj | congruence].
  - intros x y; apply N.compare_antisym.
  - intros x y z; rewrite !N.compare_lt_iff; lia.
Qed.

(** ** Lexicographic product *)

Definition lex (c1 c2 : comparison) : comparison :=
  match c1 with Eq => c2 | o => o end.

Definition pcmp {X Y} (cx : X -> X -> comparison) (cy : Y -> Y -> comparison)
  (p q : X * Y) : comparison := lex (cx (fst p) (fst q)) (cy (snd p) (snd q)).

Lemma pcmp_ok {X Y} (cx : X -> X -> comparison) (cy : Y -> Y -> comparison) :
  cmp_ok cx -> cmp_ok cy -> cmp_ok (pcmp cx cy).
Proof.
  intros Hx Hy; unfold pcmp; split.
  - intros [x1 y1] [x2 y2]; simpl. destruct (cx x1 x2) eqn:E; simpl.
    + apply (c_eq Hx) in E; subst. rewrite (c_eq Hy). split; congruence.
    + split; [discriminate|]. intros H; inversion H; subst.
      rewrite (c_refl Hx) in E; discriminate.
    + split; [discriminate|]. intros H; inversion H; subst.
      rewrite (c_refl Hx) in E; discriminate.
  - intros [x1 y1] [x2 y2]; simpl. rewrite (c_anti Hx x1 x2).
    destruct (cx x1 x2); simpl; auto. apply (c_anti Hy).
  - intros [x1 y1] [x2 y2] [x3 y3]; simpl.
    destruct (cx x1 x2) eqn:E12; simpl; try discriminate.
    + apply (c_eq Hx) in E12; subst x2.
      destruct (cx x1 x3) eqn:E13; simpl; auto; try discriminate.
      apply (c_lt_trans Hy).
    + intros _. destruct (cx x2 x3) eqn:E23; simpl; try discriminate.
      * apply (c_eq Hx) in E23; subst x3. rewrite E12; reflexivity.
      * intros _. rewrite (c_lt_trans Hx _ _ _ E12 E23); reflexivity.
Qed.

(** ** Lists (hence strings) *)

Fixpoint lcmp {X} (c : X -> X -> comparison) (l1 l2 : list X) : comparison :=
  match l1, l2 with
  | [], [] => Eq
  | [], _ :: _ => Lt
  | _ :: _, [] => Gt
  | x :: r1, y :: r2 => lex (c x y) (lcmp c r1 r2)
  end.

Lemma lcmp_ok {X} (c : X -> X -> comparison) : cmp_ok c -> cmp_ok (lcmp c).
Proof.
  intros Hc; split.
  - induction x as [|a x IH]; intros [|b y]; simpl; try (split; [discriminate|discriminate]).
    + split; reflexivity.
    + destruct (c a b) eqn:E; simpl.
      * apply (c_eq Hc) in E; subst. rewrite IH. split; congruence.
      * split; [discriminate|]. intros H; inversion H; subst.
        rewrite (c_refl Hc) in E; discriminate.
      * split; [discriminate|]. intros H; inversion H; subst.
        rewrite (c_refl Hc) in E; discriminate.
  - induction x as [|a x IH]; intros [|b y]; simpl; auto.
    rewrite (c_anti Hc a b). destruct (c a b); simpl; auto.
  - induction x as [|a x IH]; intros [|b y] [|d z]; simpl; auto; try discriminate.
    destruct (c a b) eqn:E12; simpl; try discriminate.
    + apply (c_eq Hc) in E12; subst b.
      destruct (c a d) eqn:E13; simpl; auto; try discriminate. apply IH.
    + intros _. destruct (c b d) eqn:E23; simpl; try discriminate.
      * apply (c_eq Hc) in E23; subst d. rewrite E12; reflexivity.
      * intros _. rewrite (c_lt_trans Hc _ _ _ E12 E23); reflexivity.
Qed.

Definition scmp (s t : string) : comparison :=
  lcmp acmp (list_ascii_of_string s) (list_ascii_of_string t).

Lemma scmp_ok : cmp_ok scmp.
Proof.
  pose proof (lcmp_ok acmp acmp_ok) as H. unfold scmp; split.
  - intros x y. rewrite (c_eq H). split; [|congruence].
    intros E. rewrite <- (string_of_list_ascii_of_string x), <- (string_of_list_ascii_of_string y), E.
    reflexivity.
  - intros x y; apply (c_anti H).
  - intros x y z; apply (c_lt_trans H).
Qed.

(** ** Derived boolean orders *)

Section Derived.
  Context {X : Type} (c : X -> X -> comparison) (Hc : cmp_ok c).

  Definition geb (x y : X) : bool := match c x y with Lt => false | _ => true end.
  Definition leb (x y : X) : bool := match c x y with Gt => false | _ => true end.
  Definition ltb (x y : X) : bool := match c x y with Lt => true | _ => false end.
  Definition eqb (x y : X) : bool := match c x y with Eq => true | _ => false end.

  Lemma eqb_iff x y : eqb x y = true <-> x = y.
  Proof. unfold eqb. rewrite <- (c_eq Hc). destruct (c x y); split; congruence. Qed.

  Lemma geb_refl x : geb x x = true.
  Proof. unfold geb. rewrite (c_refl Hc). reflexivity. Qed.

  Lemma geb_leb x y : geb x y = leb y x.
  Proof. unfold geb, leb. rewrite (c_anti Hc x y). destruct (c x y); reflexivity. Qed.

  Lemma geb_antisym x y : geb x y = true -> geb y x = true -> x = y.
  Proof.
    unfold geb. rewrite (c_anti Hc x y). destruct (c x y) eqn:E; simpl; try discriminate.
    intros _ _. apply (c_eq Hc); exact E.
  Qed.

  Lemma geb_total x y : geb x y = true \/ geb y x = true.
  Proof. unfold geb. rewrite (c_anti Hc x y). destruct (c x y); simpl; auto. Qed.

  Lemma ltb_trans x y z : ltb x y = true -> ltb y z = true -> ltb x z = true.
  Proof.
    unfold ltb. destruct (c x y) eqn:E1; try discriminate.
    destruct (c y z) eqn:E2; try discriminate. intros _ _.
    rewrite (c_lt_trans Hc _ _ _ E1 E2). reflexivity.
  Qed.

  Lemma ltb_negb_geb x y : ltb x y = negb (geb x y).
  Proof. unfold ltb, geb. destruct (c x y); reflexivity. Qed.

  Lemma leb_trans x y z : leb x y = true -> leb y z = true -> leb x z = true.
  Proof.
    unfold leb. destruct (c x y) eqn:E1; try discriminate; intros _.
    - apply (c_eq Hc) in E1; subst. auto.
    - destruct (c y z) eqn:E2; try discriminate; intros _.
      + apply (c_eq Hc) in E2; subst. rewrite E1; reflexivity.
      + rewrite (c_lt_trans Hc _ _ _ E1 E2). reflexivity.
  Qed.

  Lemma geb_trans x y z : geb x y = true -> geb y z = true -> geb x z = true.
  Proof. rewrite !geb_leb. intros H1 H2. exact (leb_trans _ _ _ H2 H1). Qed.

  Lemma leb_total x y : leb x y = true \/ leb y x = true.
  Proof. rewrite <- !geb_leb. destruct (geb_total x y); auto. Qed.
End Derived.
