(** * Sx: the interchange datatype between the Python harness and the Gallina models.

    Every executable model exports a function [run_xxx : sx -> sx].  The harness
    serialises a case as an s-expression, the extracted OCaml runner parses it into
    [sx], calls [dispatch] and prints the result.  The same [sx] literals are also
    written into generated [.v] files and evaluated with [vm_compute] (cross-check
    of the extraction).  Numbers travel as decimal atoms and are parsed *inside*
    Gallina, so no extraction directive for integers is needed.

    Plain standard library only, so that both std++-style and stdlib-style model
    files can import it. *)
From Coq Require Import List String Ascii NArith ZArith Bool.
From Coq Require Import DecimalString DecimalN DecimalZ.
Import ListNotations.
Local Open Scope string_scope.

Inductive sx : Type :=
| A (s : string)
| L (l : list sx).

(** ** Decoders (all total, [option]-valued) *)

Definition sx_atom (x : sx) : option string :=
  match x with A s => Some s | L _ => None end.

Definition sx_list (x : sx) : option (list sx) :=
  match x with L l => Some l | A _ => None end.

Definition N_of_string (s : string) : option N :=
  match NilEmpty.uint_of_string s with
  | Some u => Some (N.of_uint u)
  | None => None
  end.

Definition string_of_N (n : N) : string := NilZero.string_of_uint (N.to_uint n).

Definition Z_of_string (s : string) : option Z :=
  match NilEmpty.int_of_string s with
  | Some i => Some (Z.of_int i)
  | None => None
  end.

Definition string_of_Z (z : Z) : string := NilZero.string_of_int (Z.to_int z).

Definition sx_N (x : sx) : option N :=
  match x with A s => N_of_string s | L _ => None end.

Definition sx_Z (x : sx) : option Z :=
  match x with A s => Z_of_string s | L _ => None end.

Definition sx_nat (x : sx) : option nat := option_map N.to_nat (sx_N x).

Definition sx_bool (x : sx) : option bool :=
  match x with
  | A "T" => Some true
  | A "F" => Some false
  | _ => None
  end.

Fixpoint opt_all {X : Type} (l : list (option X)) : option (list X) :=
  match l with
  | [] => Some []
  | None :: _ => None
  | Some x :: r => match opt_all r with Some r' => Some (x :: r') | None => None end
  end.

Definition sx_map {X : Type} (f : sx -> option X) (x : sx) : option (list X) :=
  match x with L l => opt_all (map f l) | A _ => None end.

Definition sx_strings (x : sx) : option (list string) := sx_map sx_atom x.

Definition sx_opt {X : Type} (f : sx -> option X) (x : sx) : option (option X) :=
  match x with
  | L [] => Some None
  | L [y] => option_map Some (f y)
  | _ => None
  end.

Definition sx_pair {X Y : Type} (f : sx -> option X) (g : sx -> option Y) (x : sx)
  : option (X * Y) :=
  match x with
  | L [a; b] => match f a, g b with Some a', Some b' => Some (a', b') | _, _ => None end
  | _ => None
  end.

(** ** Encoders *)

Definition of_N (n : N) : sx := A (string_of_N n).
Definition of_Z (z : Z) : sx := A (string_of_Z z).
Definition of_nat (n : nat) : sx := of_N (N.of_nat n).
Definition of_bool (b : bool) : sx := A (if b then "T" else "F").
Definition of_strings (l : list string) : sx := L (map A l).
Definition of_opt {X : Type} (f : X -> sx) (o : option X) : sx :=
  match o with None => L [] | Some x => L [f x] end.
Definition of_list {X : Type} (f : X -> sx) (l : list X) : sx := L (map f l).
Definition of_pair {X Y : Type} (f : X -> sx) (g : Y -> sx) (p : X * Y) : sx :=
  L [f (fst p); g (snd p)].

(** Result of a model run on a malformed case: the harness treats this as a
    harness bug, never as model behaviour. *)
Definition sx_bad (why : string) : sx := L [A "BAD-CASE"; A why].
