(* Model runner: reads one s-expression per line on stdin, applies the extracted
   [Model.dispatch], prints one s-expression per line on stdout.
   Wire format: '(' ')' and atoms; an atom is a run of characters other than
   whitespace, parentheses and backslash, where "\HH" (two hex digits) encodes any
   byte.  The empty atom is written "\E" (hex digits are always lower case). *)
open Model

let explode (s : string) : char list = List.init (String.length s) (String.get s)
let implode (l : char list) : string = String.init (List.length l) (List.nth l)
let implode (l : char list) : string =
  let b = Buffer.create 16 in List.iter (Buffer.add_char b) l; Buffer.contents b

let hexval c = match c with
  | '0'..'9' -> Char.code c - 48 | 'a'..'f' -> Char.code c - 87
  | 'A'..'F' -> Char.code c - 55 | _ -> failwith "hex"

let parse (s : string) : sx =
  let n = String.length s in
  let pos = ref 0 in
  let rec skip () = if !pos < n && (s.[!pos] = ' ' || s.[!pos] = '\t') then (incr pos; skip ()) in
  let rec item () : sx =
    skip ();
    if !pos >= n then failwith "eof"
    else if s.[!pos] = '(' then begin
      incr pos;
      let acc = ref [] in
      let rec loop () =
        skip ();
        if !pos >= n then failwith "unclosed"
        else if s.[!pos] = ')' then incr pos
        else (acc := item () :: !acc; loop ()) in
      loop (); L (List.rev !acc)
    end else begin
      let b = Buffer.create 16 in
      let rec loop () =
        if !pos < n then
          match s.[!pos] with
          | ' ' | '\t' | '(' | ')' -> ()
          | '\\' ->
            if s.[!pos+1] = 'E' then (pos := !pos + 2; loop ())
            else begin
              Buffer.add_char b (Char.chr (16 * hexval s.[!pos+1] + hexval s.[!pos+2]));
              pos := !pos + 3; loop () end
          | c -> Buffer.add_char b c; incr pos; loop () in
      loop (); A (explode (Buffer.contents b))
    end in
  item ()

let safe c = match c with
  | 'a'..'z' | 'A'..'Z' | '0'..'9' | '_' | '.' | ':' | '/' | '-' | '+' | '=' | '!' | '~' | '@' | '#' | '$' | '%' | '^' | '&' | '*' | ',' | ';' | '<' | '>' | '?' | '[' | ']' | '{' | '}' | '|' -> true
  | _ -> false

let rec print (b : Buffer.t) (x : sx) : unit =
  match x with
  | A cs ->
    if cs = [] then Buffer.add_string b "\\E"
    else List.iter (fun c -> if safe c then Buffer.add_char b c
                     else Buffer.add_string b (Printf.sprintf "\\%02x" (Char.code c))) cs
  | L l ->
    Buffer.add_char b '(';
    List.iteri (fun i y -> if i > 0 then Buffer.add_char b ' '; print b y) l;
    Buffer.add_char b ')'

let () =
  try
    while true do
      let line = input_line stdin in
      let b = Buffer.create 256 in
      (try print b (dispatch (parse line))
       with e -> Buffer.add_string b ("(RUNNER-ERROR " ^ String.escaped (Printexc.to_string e) ^ ")"));
      print_string (Buffer.contents b); print_newline ()
    done
  with End_of_file -> ()
